----------------------------- MODULE GnosisSlotMC -----------------------------
(***************************************************************************)
(* Two keypers A and B over the same synced state, driven over a finite    *)
(* alphabet of operations.  An operation names the set K of keypers it is  *)
(* applied to (the keypers have separate databases, so applying an         *)
(* operation to both in one step is the same as any interleaving of the    *)
(* two applications): every product state reachable by interleavings is    *)
(* reachable here.                                                         *)
(*   slot    K, s        slot tick s (maybeTriggerDecryption)              *)
(*   in      K, e, p, n  a valid DecryptionKeys message of eon e, pointer  *)
(*                       p, n keys is received (m: it is the message for   *)
(*                       the keyper's own current trigger)                 *)
(*   out     K, e, n, m  the keyper core hands a keys message without      *)
(*                       Extra to the middleware (n = 0: as many keys as   *)
(*                       the current trigger has identities; m: a          *)
(*                       threshold of signatures was collected before)     *)
(*   fwd     K, e, p, n  key shares received that complete a keys message  *)
(*                       (DecryptionKeySharesHandler returns it with Extra)*)
(*   restart K           ResetAllTxPointerAges + new Keyper object         *)
(*   grow    e, g        a transaction with gas class g is synced          *)
(*   sync                a block of the next slot is synced                *)
(*   eon                 the next keyper set / eon becomes active          *)
(* TLC checks the property layer (GnosisSlotProps) on every transition of  *)
(* the code-shaped layer and prints one history per distinct               *)
(* (state, last operation); the printed set is prefix closed.              *)
(***************************************************************************)
EXTENDS GnosisSlotProps, Json, SequencesExt

CONSTANTS
    MaxSlot,      \* slots are 1..MaxSlot
    QMax,         \* bound on the queue length of an eon
    QInit,        \* initial queues of eon 1: all sequences over InitGas of length QInitMin..QInit
    QInitMin,
    InitGas,      \* gas classes of the initial queues
    GrowGas,      \* gas classes of transactions synced later
    KeysPN,       \* (p, n) pairs of received / forwarded keys messages
    OutN,         \* key counts of self-produced keys messages (0 = matches the current trigger)
    KSets,        \* sets of keypers an operation is applied to (sequences of names)
    Kinds,        \* operation kinds in the alphabet
    MaxKeysOps,   \* bound on the number of keys operations in a behaviour
    MaxRestarts,
    Faults,       \* fault classes of the slotf operations
    MaxFaults,    \* bound on the number of slotf operations in a behaviour
    Emit

VARIABLES env, ks, gh, resp, last, hist, cnt, tags
vars == <<env, ks, gh, resp, last, hist, cnt, tags>>

Keypers == {"A", "B"}

AlphabetSet ==
    (IF "slot" \in Kinds THEN {[Op0 EXCEPT !.op = "slot", !.K = K, !.s = s] : K \in KSets, s \in 1..MaxSlot} ELSE {}) \cup
    (IF "slotf" \in Kinds THEN {[Op0 EXCEPT !.op = "slotf", !.K = K, !.s = s, !.g = f] : K \in KSets, s \in 1..MaxSlot, f \in Faults} ELSE {}) \cup
    (IF "in" \in Kinds THEN
        {[Op0 EXCEPT !.op = "in", !.K = K, !.e = e, !.p = pn[1], !.n = pn[2]] : K \in KSets, e \in EonSet, pn \in KeysPN} \cup
        {[Op0 EXCEPT !.op = "in", !.K = K, !.e = e, !.m = TRUE] : K \in KSets, e \in EonSet}
     ELSE {}) \cup
    (IF "out" \in Kinds THEN
        {[Op0 EXCEPT !.op = "out", !.K = K, !.e = e, !.n = n, !.m = m] : K \in KSets, e \in EonSet, n \in OutN, m \in BOOLEAN}
     ELSE {}) \cup
    (IF "fwd" \in Kinds THEN
        {[Op0 EXCEPT !.op = "fwd", !.K = K, !.e = e, !.p = pn[1], !.n = pn[2]] : K \in KSets, e \in EonSet, pn \in KeysPN}
     ELSE {}) \cup
    (IF "restart" \in Kinds THEN {[Op0 EXCEPT !.op = "restart", !.K = K] : K \in KSets} ELSE {}) \cup
    (IF "grow" \in Kinds THEN {[Op0 EXCEPT !.op = "grow", !.e = e, !.g = g] : e \in EonSet, g \in GrowGas} ELSE {}) \cup
    (IF "sync" \in Kinds THEN {[Op0 EXCEPT !.op = "sync"]} ELSE {}) \cup
    (IF "eon" \in Kinds THEN {[Op0 EXCEPT !.op = "eon"]} ELSE {})

Alphabet == SetToSeq(AlphabetSet)

ASSUME PrintT(<<"ALPHABET", ToJson(Alphabet)>>)
ASSUME PrintT(<<"CONST", ToJson([neons |-> NEons, gaslimit |-> GasLimit, mingas |-> MinGas, maxage |-> MaxAge,
                                 unreg |-> SetToSeq(Unreg), maxslot |-> MaxSlot, qmax |-> QMax, ranks |-> Ranks])>>)

IsEnvOp(o) == o.op \in {"grow", "sync", "eon"}
IsKeysOp(o) == o.op \in {"in", "out", "fwd"}

(* operations the environment can produce in state (en, kk) *)
Enabled(en, kk, c, o) ==
    CASE o.op \in {"slot", "slotf"} ->
           (* the clock does not run backwards over a restart: a new Keyper object only sees
              later slots; an old object may be ticked again for the slot it just handled *)
           /\ \A k \in InSet(o.K) : IF kk[k].fresh THEN o.s > kk[k].latest ELSE o.s >= kk[k].latest
           /\ o.op = "slotf" => c.flt < MaxFaults
      [] o.op = "in"  -> /\ c.keys < MaxKeysOps
                         /\ o.e <= en.active
                         /\ o.m => \A k \in InSet(o.K) : kk[k].cur[o.e].row
      [] o.op = "out" -> c.keys < MaxKeysOps /\ o.e <= en.active
      [] o.op = "fwd" -> c.keys < MaxKeysOps /\ o.e <= en.active
      [] o.op = "restart" -> c.rst < MaxRestarts /\ \A k \in InSet(o.K) : ~kk[k].fresh
      [] o.op = "grow" -> Len(en.q[o.e]) < QMax /\ o.e <= en.active
      [] o.op = "sync" -> en.synced < MaxSlot - 1
      [] o.op = "eon"  -> en.active < NEons

(* initial queues of eon 1, numbered; a printed history starts with -(number of its initial queue) *)
InitQueues == UNION {[1..n -> InitGas] : n \in QInitMin..QInit}
InitQueueSeq == SetToSeq({IF Len(f) = 0 THEN <<>> ELSE [i \in DOMAIN f |-> [r |-> Ranks[i], g |-> f[i]]] : f \in InitQueues})
ASSUME PrintT(<<"INITQ", ToJson(InitQueueSeq)>>)

Init ==
    /\ \E j \in DOMAIN InitQueueSeq :
         /\ env = [q |-> [e \in EonSet |-> IF e = 1 THEN InitQueueSeq[j] ELSE <<>>],
                   active |-> 1, synced |-> 0, block |-> Len(InitQueueSeq[j])]
         /\ hist = <<-j>>
    /\ ks = [A |-> KeyperInit, B |-> KeyperInit]
    /\ gh = [A |-> GhostInit, B |-> GhostInit]
    /\ resp = [A |-> Idle, B |-> Idle]
    /\ last = 0
    /\ cnt = [keys |-> 0, rst |-> 0, flt |-> 0]
    /\ tags = {}

Step(i) ==
    LET o == Alphabet[i] IN
    /\ Enabled(env, ks, cnt, o)
    /\ env' = EnvStep(env, o)
    /\ LET x == [k \in Keypers |-> IF k \in InSet(o.K) THEN KeyperStep(ks[k], env, o) ELSE [st |-> ks[k], r |-> Idle]] IN
       /\ ks' = [A |-> x["A"].st, B |-> x["B"].st]
       /\ resp' = [A |-> x["A"].r, B |-> x["B"].r]
       /\ gh' = [A |-> GhostStep(gh.A, env, o, x["A"].r), B |-> GhostStep(gh.B, env, o, x["B"].r)]
    /\ cnt' = [keys |-> cnt.keys + (IF IsKeysOp(o) THEN 1 ELSE 0), rst |-> cnt.rst + (IF o.op = "restart" THEN 1 ELSE 0),
               flt |-> cnt.flt + (IF o.op = "slotf" THEN 1 ELSE 0)]
    (* a second offer of a slot is a no-op of the spec: remember for whom one was made, so that
       histories continue past it (an implementation in which it has an effect is driven on) *)
    /\ tags' = tags \cup (IF o.op = "slot" /\ cnt.flt > 0
                          THEN {k \in InSet(o.K) : ~ks[k].fresh /\ o.s <= ks[k].latest} ELSE {})
    /\ last' = i
    /\ hist' = Append(hist, i)

Next == \E i \in DOMAIN Alphabet : Step(i)
Spec == Init /\ [][Next]_vars

----------------------------------------------------------------------------
(* the property layer on the transitions of the code-shaped layer *)
StepFailed(en, kk, o, g2, r2, kk2) == UNION {ObsFailed(en, o, g2[k], r2[k], kk2[k].ptr) : k \in Keypers}

StepProps == [][StepFailed(env, ks, Alphabet[last'], gh', resp', ks') = {}]_vars

(* two keypers with the same synced state request identical lists: whatever slot comes next *)
AgreeInv ==
    \A s \in 1..MaxSlot :
        LET a == MaybeTriggerDecryption(ks.A, env, s)
            b == MaybeTriggerDecryption(ks.B, env, s)
        IN (a.out = "emit" /\ b.out = "emit" /\ ks.A.ptr[env.active] = ks.B.ptr[env.active]) => a.trig = b.trig

(* the keyper's own bookkeeping never leaves the ghost (what the property layer derives from
   the observed answers): shows the ghost is the right reading of the tx_pointer table *)
GhostInv ==
    \A k \in Keypers : \A e \in EonSet :
        IF ks[k].ptr[e].row
        THEN /\ gh[k].gp[e] = ks[k].ptr[e].value
             /\ \E w \in gh[k].W[e] : w.a = ks[k].ptr[e].age
        ELSE \E w \in gh[k].W[e] : w.a = NoRowAge

EmitInv == (~Emit) \/ PrintT(<<"B", hist>>)
View == <<env, ks, gh, cnt, tags, last>>

=============================================================================
