----------------------------- MODULE EventTrigger -----------------------------
(***************************************************************************)
(* Code-shaped layer for event-based triggers (C16):                       *)
(*   keyperimpl/shutterservice/multieventsyncer.go   Sync, syncRange,      *)
(*                                                   handlePotentialReorg  *)
(*   .../eventtriggerregisteredprocessor.go          registrations         *)
(*   .../triggerprocessor.go                         matching, firing      *)
(*   .../database/sql/queries/shutterservice.sql     the statements used   *)
(* The chain is the block tree of ChainSync.tla; a block carries           *)
(*   evs  \subseteq {"r<t>", "l<t>", "o"}:  "r<t>" registers trigger t     *)
(*        with expiration block blk[b].exp, "l<t>" is a log matching t's   *)
(*        definition, "o" is a log that matches nobody                     *)
(* Database state  st = [synced, regs, fired]                              *)
(*   regs  rows [key, num, bid, exp, dec]  event_trigger_registered_event  *)
(*   fired rows [key, num, bid]            fired_triggers                  *)
(* cfg = [d, maxr, start0, fetch]:                                         *)
(*   fetch "before"  the code as it is: syncRange lets ALL processors      *)
(*                   fetch before any processor stores, so the trigger     *)
(*                   processor reads the active triggers from the database *)
(*                   before this range's registrations are in it           *)
(*   fetch "ordered" the ideal: registrations of the range are visible to  *)
(*                   the matching, which then must skip logs at or before  *)
(*                   the registration block (named alternative; needs an   *)
(*                   interface change in the repository, see known D6)     *)
(***************************************************************************)
EXTENDS ChainSync

TSt(sy, rg, fi) == [synced |-> sy, regs |-> rg, fired |-> fi]

Trigs == {"1", "2", "3"}       \* trigger names; tokens are "r" \o t and "l" \o t
RegTok(t) == "r" \o t
LogTok(t) == "l" \o t

CanonBlocks(blk, h, lo, hi) == {c \in AncSelf(blk, h) : blk[c].num >= lo /\ blk[c].num <= hi}

(* EventTriggerRegisteredEventProcessor.FetchEvents + ProcessEvents: rows of the registrations in [lo, hi] *)
RegsIn(blk, h, lo, hi) ==
    UNION {{[key |-> t, num |-> blk[b].num, bid |-> b, exp |-> blk[b].exp, dec |-> FALSE] : t \in {x \in Trigs : RegTok(x) \in blk[b].evs}} :
           b \in CanonBlocks(blk, h, lo, hi)}

(* blocks in [lo, hi] with a log matching trigger t (FilterLogs + Match) *)
LogBlocks(blk, h, t, lo, hi) == {b \in CanonBlocks(blk, h, lo, hi) : LogTok(t) \in blk[b].evs}

Earliest(blk, bs) == CHOOSE b \in bs : \A c \in bs : blk[b].num <= blk[c].num

(* TriggerProcessor.FetchEvents for [lo, hi] given the registrations it can see *)
FiredIn(blk, h, visible, fired, lo, hi, ordered) ==
    LET active == {r \in visible : r.exp >= lo /\ ~r.dec /\ \A f \in fired : f.key # r.key}   \* GetActiveEventTriggerRegisteredEvents(start)
        hits(r) == {b \in LogBlocks(blk, h, r.key, lo, hi) :
                        /\ blk[b].num <= r.exp                            \* expiry re-checked per log
                        /\ (ordered => blk[b].num > r.num)}
    IN {[key |-> r.key, num |-> blk[Earliest(blk, hits(r))].num, bid |-> Earliest(blk, hits(r))] :
            r \in {q \in active : hits(q) # {}}}                          \* InsertFiredTrigger ... ON CONFLICT DO NOTHING: first log wins

UpsertRegs(regs, rows) ==
    {r \in regs : \A n \in rows : n.key # r.key} \cup
    {[n EXCEPT !.dec = IF \E r \in regs : r.key = n.key THEN (CHOOSE r \in regs : r.key = n.key).dec ELSE FALSE] : n \in rows}

(* syncRange: header, all fetches, one transaction *)
TStoreRange(cfg, blk, h, st, lo, hi) ==
    LET newRegs == RegsIn(blk, h, lo, hi)
        visible == IF cfg.fetch = "ordered" THEN UpsertRegs(st.regs, newRegs) ELSE st.regs
        newFired == FiredIn(blk, h, visible, st.fired, lo, hi, cfg.fetch = "ordered")
    IN TSt(Sy(TRUE, hi, CanonAt(blk, h, hi)), UpsertRegs(st.regs, newRegs), st.fired \cup newFired)

(* rollback: both processors delete block_number > toBlock; fired rows also go with their
   registration (ON DELETE CASCADE) *)
TRollbackTo(st, new) ==
    LET rg == {r \in st.regs : r.num <= new} IN
    TSt(Sy(TRUE, new, Empty), rg, {f \in st.fired : f.num <= new /\ \E r \in rg : r.key = f.key})

RECURSIVE TRunRanges(_, _, _, _, _, _)
TRunRanges(cfg, blk, h, st, rs, i) ==
    IF i > Len(rs) THEN <<>>
    ELSE LET st2 == TStoreRange(cfg, blk, h, st, rs[i][1], rs[i][2]) IN <<st2>> \o TRunRanges(cfg, blk, h, st2, rs, i + 1)

(* one fault-free call of MultiEventSyncer.Sync(header of h): the committed states *)
TRun(cfg, blk, h, st) ==
    LET sy  == st.synced
        rc  == [d |-> cfg.d, reorg |-> "gap"]
        n   == IF sy.has THEN NumReorged(rc, blk, CheckBlock(rc, blk, h, sy), sy) ELSE 0
        st1 == IF n > 0 THEN TRollbackTo(st, sy.num - n) ELSE st
        start == IF st1.synced.has THEN st1.synced.num + 1 ELSE cfg.start0
    IN (IF n > 0 THEN <<st1>> ELSE <<>>) \o TRunRanges(cfg, blk, h, st1, Ranges(start, blk[h].num, cfg.maxr), 1)

(* syncRange when the node's canonical leaf switches from hA to hB right after the k-th RPC call of
   the range (k >= 1).  The calls, as the code makes them: 1 HeaderByNumber(end); then the
   processors in Go map order ("rt": registrations then trigger logs, "tr": the other way), the
   trigger processor making one FilterLogs call per active trigger (at most one trigger here).
   Call i is served from hA's chain if i <= k, else from hB's.  Header first: the stored hash is hA's. *)
TStoreMid(cfg, blk, hA, hB, st, lo, hi, k, ord) ==
    LET active  == {r \in st.regs : r.exp >= lo /\ ~r.dec /\ \A f \in st.fired : f.key # r.key}
        iRegs   == IF ord = "rt" \/ active = {} THEN 2 ELSE 3
        iTrig   == IF ord = "rt" THEN 3 ELSE 2
        ch(i)   == IF i <= k THEN hA ELSE hB
        newRegs == RegsIn(blk, ch(iRegs), lo, hi)
        newFired == FiredIn(blk, ch(iTrig), st.regs, st.fired, lo, hi, FALSE)
    IN TSt(Sy(TRUE, hi, CanonAt(blk, hA, hi)), UpsertRegs(st.regs, newRegs), st.fired \cup newFired)

TFinal(st, seq) == IF Len(seq) = 0 THEN st ELSE seq[Len(seq)]

=============================================================================
