------------------------ MODULE ValidatorRegistryTrace ------------------------
(***************************************************************************)
(* Trace layer of the validator registry path.  A run is a sequence of     *)
(* ndjson lines recorded from the REAL code:                               *)
(*   new   run, blk, canon, tabs       a fresh world (two keypers)         *)
(*   step  run, a, blk, canon, ret, tabs, decs                             *)
(*         a = [op, k, tgt, f]: "mine" / "switch" (the tree AFTER the      *)
(*         action is in blk / canon) or "sync": the real                   *)
(*         ValidatorSyncer.Sync of keyper k with the header of the         *)
(*         canonical block number tgt while the beacon API is in state f;  *)
(*         ret = "ok" | "err" | "panic" | "hang"; tabs = the projected     *)
(*         validator tables of both keypers after the step; decs[k] = the  *)
(*         decisions of the real maybeTriggerDecryption of keyper k for    *)
(*         every proposer and every next block up to its position          *)
(* Deterministic fold; pass A (viol): the V1-V4 monitors of                *)
(* ValidatorRegistryProps on the observed data; pass B (drift): the        *)
(* observed post table, error class and decisions are what the code-shaped *)
(* layer yields from the previously OBSERVED table; acts: the calls whose   *)
(* outcome a single repaired alternative would have changed.               *)
(***************************************************************************)
EXTENDS ValidatorRegistryProps, Json, SequencesExt

CONSTANT TraceFile
Trace == ndJsonDeserialize(TraceFile)

VARIABLES l, prev, obs, viol, drift, acts
tvars == <<l, prev, obs, viol, drift, acts>>

RangeOf(s) == {s[i] : i \in DOMAIN s}
StOf(t) == St(t.synced, RangeOf(t.rows))
Tabs(line) == [i \in DOMAIN line.tabs |-> StOf(line.tabs[i])]

LineViol(line, pv, ob) ==
    LET tabs == Tabs(line)
        ref == RefAll(line.blk, line.canon)
    IN V3_Failed(ob \cup {tabs[x] : x \in DOMAIN tabs})
       \cup (IF line.k = "new" THEN UNION {V1_FailedR(line.blk, line.canon, tabs[x], ref) : x \in DOMAIN tabs} ELSE {})
       \cup (IF line.k = "step" /\ line.a.op = "sync"
             THEN V1_FailedR(line.blk, line.canon, tabs[line.a.k], ref)
                  \cup V2_Failed(pv[line.a.k], tabs[line.a.k], line.a.tgt, line.a.f, line.ret)
                  \cup V4_FailedR(line.blk, line.canon, tabs[line.a.k], RangeOf(line.decs[line.a.k]), ref)
             ELSE {})

SpecAllows(line, pv) ==
    LET tabs == Tabs(line) IN
    IF line.k = "new" THEN \A x \in DOMAIN tabs : tabs[x] = St(NoRow, {})
    ELSE IF line.a.op # "sync" THEN tabs = pv
    ELSE LET k == line.a.k
             r == Run(line.blk, line.canon, pv[k], line.a.tgt, line.a.f)
         IN /\ r.st = tabs[k]
            /\ r.ret = line.ret
            /\ \A x \in DOMAIN tabs : x # k => tabs[x] = pv[x]
            /\ line.ret = "hang" \/ RangeOf(line.decs[k]) = DecsOf(line.blk, line.canon, tabs[k])   \* no decisions after a hang: the process is gone

(* which single repair (or the two nonce repairs together) would have changed this call?  The steps
   where a defect ACTS; the harness attributes later monitor failures of the run to them. *)
Alt(d) == CASE d = "batch"  -> [Modes EXCEPT !.batch = "batch"]
            [] d = "nonceq" -> [Modes EXCEPT !.nonceq = "lex"]
            [] d = "both"   -> [Modes EXCEPT !.batch = "batch", !.nonceq = "lex"]
ActsOn(line, pv) ==
    IF line.k # "step" \/ line.a.op # "sync" THEN {}
    ELSE LET k == line.a.k
             r == Run(line.blk, line.canon, pv[k], line.a.tgt, line.a.f)
         IN {d \in {"batch", "nonceq", "both"} : RunM(Alt(d), line.blk, line.canon, pv[k], line.a.tgt, line.a.f) # r}

TInit == l = 1 /\ prev = <<>> /\ obs = {} /\ viol = {} /\ drift = {} /\ acts = {}

TNext ==
    /\ l <= Len(Trace)
    /\ l' = l + 1
    /\ LET line == Trace[l]
           ob == IF line.k = "new" THEN {} ELSE obs
           tabs == Tabs(line)
       IN /\ viol' = viol \cup {<<l, m>> : m \in LineViol(line, prev, ob)}
          /\ drift' = drift \cup (IF SpecAllows(line, prev) THEN {} ELSE {l})
          /\ acts' = acts \cup {<<l, d>> : d \in ActsOn(line, prev)}
          /\ prev' = tabs
          /\ obs' = ob \cup {tabs[x] : x \in DOMAIN tabs}

TSpec == TInit /\ [][TNext]_tvars

Done == l <= Len(Trace) \/
        PrintT(<<"RESULT", ToJson([lines |-> Len(Trace), viol |-> SetToSeq(viol), drift |-> SetToSeq(drift), acts |-> SetToSeq(acts)])>>)

=============================================================================
