--------------------------- MODULE AccessNodeProps ---------------------------
(***************************************************************************)
(* Property layer of the AccessNode stage, over OBSERVED data only: the    *)
(* chain events handed to the node's two handlers, the gossip messages     *)
(* given to its topic validator, the verdicts that came back and the       *)
(* projection of its Storage after every step.  A ghost per node folds the *)
(* inputs (what was announced for each eon, in delivery order) and the     *)
(* verdicts seen.  Nothing here refers to the code-shaped operators        *)
(* (OnNew.., ..Validate..) of AccessNode.tla; only its vocabulary is used. *)
(*                                                                         *)
(* The AUTHORITY for an eon is the LAST announcement delivered for it (as  *)
(* in SigRuleProps): its keyper set is the last KeyperSetAdded content,    *)
(* its key the last EonKeyBroadcast bytes -- if those bytes are not a      *)
(* key, the eon has no usable key.                                         *)
(*                                                                         *)
(* Monitors of the host property C06 (a failure on the real node is a      *)
(* VIOLATION of C06):                                                      *)
(*   C06_OnlyIf  accepted => the message carries a genuine threshold of    *)
(*               signatures by the eon's keyper set (exactly threshold     *)
(*               signers, strictly increasing, inside the set, one         *)
(*               signature per signer, each by the listed keyper over the  *)
(*               message's own data) -- at every moment, start-up windows  *)
(*               included (no keyper set known: nothing is genuine)        *)
(*   C06_If      fully valid for its eon and the node knows the eon's set  *)
(*               and key => accepted                                       *)
(* New properties (failures are OBSERVATION lines):                        *)
(*   A1_NoInterference   the verdict on a message changed although no      *)
(*               event of ITS eon was delivered in between (another eon's  *)
(*               event or an earlier message interfered)                   *)
(*   A2_Sound    accepted => fully valid (instance, eon range, 1..MaxKeys  *)
(*               keys that verify against the eon's key, identities        *)
(*               ordered, Gnosis extra in range, genuine threshold)        *)
(*   A2_ForgedKeysAccepted  accepted although a decryption key of the      *)
(*               message is not a genuine key at all                       *)
(*   A2_TruncatedThresholdAccept  accepted under a keyper set whose on-    *)
(*               chain threshold does not fit int32 (outside C06)          *)
(*   A2_AcceptRevoked   a message accepted earlier is no longer accepted   *)
(*   A2_StartupReject   a well-formed candidate (genuine keys of one key,  *)
(*               genuine threshold of one list) is REJECTED -- the         *)
(*               forwarding peer is penalised -- while the node does not   *)
(*               yet know the eon's keyper set / key (nothing announced),   *)
(*               and what it does know of the eon does not refute it       *)
(*   A3 facts    F_SetLastWins F_SetFirstWins F_KeyLastWins F_KeyFirstWins *)
(*               what a re-announcement with different content does        *)
(*               (A3_SetOther / A3_KeyOther: neither)                      *)
(*   A4 invariants of the Storage (derived from the code):                 *)
(*     A4_Phantom  an entry for an eon nothing was announced for           *)
(*     A4_NotAnnounced  an entry that equals no announcement of its eon    *)
(*     A4_IntTruncated  ... equals one only up to integer truncation       *)
(*     A4_UndecodableKeyStored  the stored key is not a key                *)
(*     A4_Removed  an entry vanished                                       *)
(*     A4_OtherEonTouched  an event changed another eon's entry            *)
(*     A4_ValidationWrites  validating a message changed the Storage       *)
(*     facts F_KeyWithoutSet F_SetWithoutKey: the two maps are not coupled *)
(*   A5 (two nodes) A5_StorageDiverged / A5_VerdictDiverged: same multiset *)
(*               of delivered events, different Storage / verdict          *)
(*   C05_Panic C05_Hang  reported as observations: C05 owns them           *)
(***************************************************************************)
EXTENDS AccessNode

NoAnn == [mem |-> "-", thr |-> "-", act |-> "-"]
GN0 == [ls |-> [e \in AllEons |-> NoAnn], lk |-> [e \in AllEons |-> "-"],
        as |-> [e \in AllEons |-> {}], ak |-> [e \in AllEons |-> {}],
        seen |-> {}, acc |-> {}, bag |-> <<>>]

BagAdd(b, x) == [y \in DOMAIN b \cup {x} |-> IF y = x THEN (IF x \in DOMAIN b THEN b[x] + 1 ELSE 1) ELSE b[y]]
AnnOf(ev) == [mem |-> ev.mem, thr |-> ev.thr, act |-> ev.act]

(* the ghost after an event was handed to the node *)
GhostEv(gn, ev) ==
    LET g1 == [gn EXCEPT !.seen = {p \in @ : p[1].e # ev.e}, !.bag = BagAdd(@, ev)] IN
    IF ev.t = "ks"
    THEN [g1 EXCEPT !.ls[ev.e] = AnnOf(ev), !.as[ev.e] = @ \cup {AnnOf(ev)}]
    ELSE [g1 EXCEPT !.lk[ev.e] = ev.key, !.ak[ev.e] = @ \cup {ev.key}]

(* the ghost after a verdict *)
GhostMsg(gn, m, v) ==
    [gn EXCEPT !.seen = {p \in @ : p[1] # m} \cup {<<m, v>>},
               !.acc = IF v = "accept" THEN @ \cup {m} ELSE @]

(* ------------------------------ the rule ------------------------------- *)
ThrNat(thr) == IF thr = "t" THEN T ELSE 0
InC06(a) == a.mem = "-" \/ a.thr \in {"t", "0"}       \* thresholds that do not fit int32 are outside C06
SigGenuine(sg, mem) == sg.by = mem /\ sg.who = "listed" /\ sg.over = "msg"

GenuineThreshold(m, a) ==
    /\ a.mem # "-" /\ a.thr \in {"t", "0"}
    /\ Len(m.signers) = ThrNat(a.thr)
    /\ \A i \in 2..Len(m.signers) : m.signers[i-1] < m.signers[i]
    /\ \A i \in 1..Len(m.signers) : m.signers[i] < MemSize(a.mem)
    /\ Len(m.sigs) = Len(m.signers)
    /\ \A i \in 1..Len(m.sigs) : SigGenuine(m.sigs[i], a.mem)
    /\ (Len(m.signers) > 0 => m.idl = "ok")              \* no signature over a list without SSZ root exists

KeysGenuine(m, k) == k \in GoodKeys /\ \A i \in 1..Len(m.keys) : m.keys[i] = k

Shape(m) ==
    /\ m.inst = "ok" /\ m.e \notin HugeEons
    /\ Len(m.keys) >= 1 /\ Len(m.keys) <= MaxKeys
    /\ m.ord # "desc" /\ m.idl = "ok"
    /\ m.ex = "gnosis" /\ m.slot = "ok" /\ m.txp = "ok"

FullyValid(m, a, k) == Shape(m) /\ KeysGenuine(m, k) /\ GenuineThreshold(m, a)
Known(gn, e) == gn.ls[e].mem # "-" /\ gn.lk[e] \in GoodKeys

Candidate(m) ==
    /\ Shape(m)
    /\ \E k \in GoodKeys : KeysGenuine(m, k)
    /\ \E L \in Lists : GenuineThreshold(m, [mem |-> L, thr |-> "t", act |-> "lo"])

(* monitors of one observed validation: gn = ghost BEFORE, pre / post = Storage before / after *)
MsgObs(gn, m, v, pre, post) ==
    LET a == gn.ls[m.e]
        k == gn.lk[m.e] IN
    (IF v = "accept" /\ InC06(a) /\ ~GenuineThreshold(m, a) THEN {"C06_OnlyIf"} ELSE {}) \cup
    (IF FullyValid(m, a, k) /\ v # "accept" /\ v \notin {"panic", "hang"} THEN {"C06_If"} ELSE {}) \cup
    (IF v = "accept" /\ \E i \in 1..Len(m.keys) : m.keys[i] \notin GoodKeys THEN {"A2_ForgedKeysAccepted"} ELSE {}) \cup
    (IF v = "accept" /\ InC06(a) /\ ~FullyValid(m, a, k) /\ \A i \in 1..Len(m.keys) : m.keys[i] \in GoodKeys THEN {"A2_Sound"} ELSE {}) \cup
    (IF v = "accept" /\ ~InC06(a) THEN {"A2_TruncatedThresholdAccept"} ELSE {}) \cup
    (IF \E p \in gn.seen : p[1] = m /\ p[2] # v THEN {"A1_NoInterference"} ELSE {}) \cup
    (IF m \in gn.acc /\ v # "accept" THEN {"A2_AcceptRevoked"} ELSE {}) \cup
    (IF /\ Candidate(m) /\ v = "reject" /\ (gn.as[m.e] = {} \/ gn.ak[m.e] = {})
        /\ (gn.ak[m.e] # {} => KeysGenuine(m, k)) /\ (gn.as[m.e] # {} => GenuineThreshold(m, a))
     THEN {"A2_StartupReject"} ELSE {}) \cup
    (IF post # pre THEN {"A4_ValidationWrites"} ELSE {}) \cup
    (IF v = "panic" THEN {"C05_Panic"} ELSE {}) \cup
    (IF v = "hang" THEN {"C05_Hang"} ELSE {})

(* ------------------------------ Storage -------------------------------- *)
Match(stored, a) == stored.mem = a.mem /\ stored.thr = a.thr /\ stored.act = a.act
Plain(a) == a.thr \in {"t", "0"} /\ a.act = "lo"

(* state predicates over the observed Storage, g1 = ghost AFTER the step *)
StoreObs(g1, post) ==
    UNION {
      (IF (post[e].set # NoSet /\ g1.as[e] = {}) \/ (post[e].key # "-" /\ g1.ak[e] = {}) THEN {"A4_Phantom"} ELSE {}) \cup
      (IF post[e].set # NoSet /\ g1.as[e] # {} /\ ~\E a \in g1.as[e] : Match(post[e].set, a)
       THEN (IF \E a \in g1.as[e] : post[e].set.mem = a.mem THEN {"A4_IntTruncated"} ELSE {"A4_NotAnnounced"}) ELSE {}) \cup
      (IF post[e].key \in GoodKeys /\ g1.ak[e] # {} /\ post[e].key \notin g1.ak[e] THEN {"A4_NotAnnounced"} ELSE {}) \cup
      (IF post[e].key \notin GoodKeys \cup {"-"} THEN {"A4_UndecodableKeyStored"} ELSE {}) \cup
      (IF post[e].key # "-" /\ post[e].set = NoSet THEN {"F_KeyWithoutSet"} ELSE {}) \cup
      (IF post[e].key = "-" /\ post[e].set # NoSet THEN {"F_SetWithoutKey"} ELSE {})
      : e \in AllEons }

(* monitors of one observed event: gn = ghost BEFORE, pre / post = Storage before / after *)
EvObs(gn, ev, pre, post) ==
    LET e == ev.e
        a == AnnOf(ev) IN
    (IF ev.t = "ks" /\ pre[e].set # NoSet /\ Plain(a) /\ ~Match(pre[e].set, a)
     THEN (IF Match(post[e].set, a) THEN {"F_SetLastWins"}
           ELSE IF post[e].set = pre[e].set THEN {"F_SetFirstWins"} ELSE {"A3_SetOther"}) ELSE {}) \cup
    (IF ev.t = "ek" /\ ev.key \in GoodKeys /\ pre[e].key \in GoodKeys /\ pre[e].key # ev.key
     THEN (IF post[e].key = ev.key THEN {"F_KeyLastWins"}
           ELSE IF post[e].key = pre[e].key THEN {"F_KeyFirstWins"} ELSE {"A3_KeyOther"}) ELSE {}) \cup
    (IF \E x \in AllEons : (pre[x].set # NoSet /\ post[x].set = NoSet) \/ (pre[x].key # "-" /\ post[x].key = "-")
     THEN {"A4_Removed"} ELSE {}) \cup
    (IF \E x \in AllEons \ {e} : post[x] # pre[x] THEN {"A4_OtherEonTouched"} ELSE {}) \cup
    StoreObs(GhostEv(gn, ev), post)

(* -------------------------- two nodes (A5) ----------------------------- *)
(* g = ghosts of all nodes AFTER the step, so = observed Storages of all nodes after the step *)
TwinStoreObs(g, so) ==
    IF \E n1, n2 \in DOMAIN g : n1 < n2 /\ g[n1].bag = g[n2].bag /\ so[n1] # so[n2] THEN {"A5_StorageDiverged"} ELSE {}
(* g = ghosts BEFORE the verdict of node n on m *)
TwinMsgObs(g, n, m, v) ==
    IF \E n2 \in DOMAIN g \ {n} : g[n2].bag = g[n].bag /\ \E p \in g[n2].seen : p[1] = m /\ p[2] # v
    THEN {"A5_VerdictDiverged"} ELSE {}

(* what the as-found design is expected to show (everything else must never appear) *)
Facts == {"F_SetLastWins", "F_SetFirstWins", "F_KeyLastWins", "F_KeyFirstWins", "F_KeyWithoutSet", "F_SetWithoutKey"}
=============================================================================
