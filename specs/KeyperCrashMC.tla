---------------------------- MODULE KeyperCrashMC ----------------------------
(***************************************************************************)
(* KeyperCrash as a transition system: exhaustive check of the C08 safety  *)
(* monitors and of the liveness part (under weak fairness of every step of *)
(* the keyper and finitely many crashes the run completes and the outbox   *)
(* is drained) and generation of the abstract crash behaviours that        *)
(* harness/dkg concretises as faults of fakepg / faketm.                   *)
(***************************************************************************)
EXTENDS KeyperCrashProps, Json

CONSTANT Emit

VARIABLES s, cr       \* cr: ghost, where the crashes happened
vars == <<s, cr>>

Where(x) == [pc |-> x.pc, head |-> x.head, sync |-> x.db.sync, tx |-> x.tx.on,
             inflight |-> x.inflight, ob |-> Len(x.db.outbox)]

Init == s = InitState /\ cr = <<>>

TxBodyA    == CanTxBody(s)    /\ s' = DoTxBody(s)    /\ UNCHANGED cr
TxCommitA  == CanTxCommit(s)  /\ s' = DoTxCommit(s)  /\ UNCHANGED cr
SyncDoneA  == CanSyncDone(s)  /\ s' = DoSyncDone(s)  /\ UNCHANGED cr
SendHeadA  == CanSendHead(s)  /\ s' = DoSendHead(s)  /\ UNCHANGED cr
DeleteHeadA == CanDeleteHead(s) /\ s' = DoDeleteHead(s) /\ UNCHANGED cr
CloseA     == CanClose(s)     /\ s' = DoClose(s)     /\ UNCHANGED cr
RestartA   == CanRestart(s)   /\ s' = DoRestart(s)   /\ UNCHANGED cr
GovTxA     == CanGovTx(s)     /\ s' = DoGovTx(s)     /\ UNCHANGED cr
CloseDownA == CanCloseDown(s) /\ s' = DoCloseDown(s) /\ UNCHANGED cr
UpA        == CanUp(s)        /\ s' = DoUp(s)        /\ UNCHANGED cr
CrashA     == CanCrash(s)     /\ s' = DoCrash(s)     /\ cr' = Append(cr, Where(s))

Progress == TxBodyA \/ TxCommitA \/ SyncDoneA \/ SendHeadA \/ DeleteHeadA \/ CloseA \/ RestartA
            \/ GovTxA \/ CloseDownA \/ UpA
Next == Progress \/ CrashA

Spec == Init /\ [][Next]_vars
FairSpec == Spec /\ WF_vars(Progress)

O(x) == [db |-> x.db, sent |-> x.sent, queued |-> x.queued]

Safety ==
    /\ C08_Once(O(s)) /\ C08_OnePoly(O(s)) /\ C08_Consistent(O(s)) /\ C08_RepeatSeen(O(s))
    /\ C08_Loadable(O(s)) /\ C08_NoStale(O(s))
    /\ s.pc = "done" => (s.db.outbox = <<>> /\ s.db.res = "full" /\ C08_Delivered(O(s)))

(* "strictly speaking everything is stored in the database, what we have here is a cache": outside
   a transaction the cached object is the stored one *)
MemMatchesDb == (s.mem.alive /\ s.mem.synced /\ ~s.tx.on) => (s.mem.has = s.db.pure /\ (s.mem.has => s.mem.rec = s.db.rec))

(* in the order they were queued: first occurrences are checkin, commit, eval, acc, apol, result *)
Rank(k) == CASE k = "vote" -> 0 [] k = "bseen" -> 1 [] k = "checkin" -> 2 [] k = "commit" -> 3 [] k = "eval" -> 4
                [] k = "old" -> 5 [] k = "eval2" -> 6 [] k = "acc" -> 7 [] k = "apol" -> 8 [] k = "result" -> 9
InOrder == LET d == Dedup(s.sent, <<>>) IN \A i, j \in DOMAIN d : i < j => Rank(d[i].k) < Rank(d[j].k)

(* every queued message is eventually delivered; the run completes *)
Completes == <>(s.pc = "done")
Drains == [](s.db.outbox # <<>> => <>(s.db.outbox = <<>>))

(* listed before Safety in the cfg: prints the crash points of a state that violates Safety *)
EmitBad == Safety \/ PrintT(<<"BAD", ToJson([cr |-> cr])>>)
EmitDone == (~Emit) \/ s.pc # "done" \/ PrintT(<<"B", ToJson([cr |-> cr])>>)
ASSUME PrintT(<<"CONST", ToJson([others |-> Others, phaseLen |-> PhaseLen, dealBlock |-> DealBlock, accBlock |-> AccBlock, lateCheckin |-> LateCheckin, overlap |-> Overlap, gov |-> Gov, downUntil |-> DownUntil, syncEvery |-> SyncEvery, syncOff |-> SyncOff, init |-> InitState])>>)

=============================================================================
