------------------------------ MODULE GnosisE2E ------------------------------
(***************************************************************************)
(* Composition of four specification families into ONE end-to-end          *)
(* behaviour of the Gnosis flavour:                                        *)
(*                                                                         *)
(*   encrypted transactions submitted to the sequencer contract            *)
(*     -> synced into each keyper's transaction queue       (ChainSync)    *)
(*     -> per-slot decryption trigger, identities from the  (GnosisSlot)   *)
(*        tx pointer within the encrypted gas limit                        *)
(*     -> key shares with slot signatures over gossip       (Gossip)       *)
(*     -> keys message with threshold signatures            (SigRule)      *)
(*     -> accepted by keypers and the access node                          *)
(*     -> tx pointer advanced                               (GnosisSlot)   *)
(*                                                                         *)
(* What is reused as it is:                                                *)
(*   GnosisSlot(Props)  EXTENDS: the keyper record [ptr, cur, latest,      *)
(*       fresh], MaybeTriggerDecryption (with IncrementTxPointerAge,       *)
(*       GetTxPointer, GetDecryptionIdentityPreimages, SortIds), Restart,  *)
(*       PtrRow, the identity tokens SlotId / TxId with their byte order,  *)
(*       and the whole C19 property layer (ghost, RequestFailed,           *)
(*       KeysFailed, AgreeOK)                                              *)
(*   ChainSync          INSTANCE CS: the block tree, CS!Run = one call of  *)
(*       SequencerSyncer.Sync (reorg check with the gap repair, rollback   *)
(*       by min(10, synced) blocks, ranges, upsert by (index, eon))        *)
(*   SigRuleProps       INSTANCE SR: SR!ValidateMessage = the code-shaped  *)
(*       ValidateDecryptionKeysSignatures (keyper handler and access node),*)
(*       SR!Admissible = the rule of C06                                   *)
(*   Gossip             INSTANCE G (gnosis flavour): FirstT (ORDER BY      *)
(*       keyper_index LIMIT threshold), Combine (combined topic validator),*)
(*       P_Accepted (C03: every produced message is accepted by all)       *)
(* What is new here is what the families leave open at their borders:      *)
(*   - the queue a keyper reads IS the table its own syncer wrote          *)
(*     (QueueOf), so keypers that synced different prefixes of the chain   *)
(*     (lag, reorg) hold different queues;                                 *)
(*   - the identity list of a trigger, its slot and its tx pointer are     *)
(*     the CONTENT c = [slot, p, ids] that shares, signatures and keys     *)
(*     messages carry (Gossip.tla has a constant list per round); two      *)
(*     keypers may answer one slot with different contents, contents of    *)
(*     consecutive slots overlap when the pointer did not move;            *)
(*   - the gnosis handlers / middleware with contents (written from        *)
(*     keyperimpl/gnosis/{handlers,messagingmiddleware}.go and             *)
(*     keyper/epochkghandler/{keyshare,key,sendkeyshare}.go line by line,  *)
(*     the shapes are those of Gossip.tla's gnosis flavour).               *)
(*                                                                         *)
(* State of keyper k (its own database + the one in-memory field):         *)
(*   s    GnosisSlot keyper record (tx_pointer, current_decryption_trigger,*)
(*        latestTriggeredSlot)                                             *)
(*   sy   ChainSync state: transaction_submitted_events_synced_until and   *)
(*        the transaction_submitted_event rows [key = tx index, num, bid]  *)
(*   sh   decryption_key_share rows  [id, from]                            *)
(*   ky   decryption_key rows        (set of identities)                   *)
(*   sg   slot_decryption_signatures rows [slot, from, p, ids], primary    *)
(*        key (eon, slot, keyper_index): INSERT .. ON CONFLICT DO NOTHING  *)
(* Cryptography is abstract here (every share, signature and key an honest *)
(* keyper makes is genuine: fields sigs / ok of a message are "ok" / TRUE);*)
(* on the code side everything is real and is judged independently.        *)
(***************************************************************************)
EXTENDS GnosisSlotProps, SequencesExt, FiniteSetsExt, Bags

CONSTANTS NK, T,       \* keypers 0..NK-1 of ONE keyper set (keyper config index 1), threshold T
          SharesPath   \* how keyper.go registers the gnosis handlers:
                       \*   "raw"     on the p2p messaging itself (the code as found): the keys message
                       \*             DecryptionKeySharesHandler returns is sent as it is, the branch
                       \*             `Extra != nil -> advanceTxPointer` of interceptDecryptionKeys is never
                       \*             reached and the announcing keyper's own tx pointer stays (finding GNO-1)
                       \*   "wrapped" through the MessagingMiddleware (proposed repair GNO-1.diff)

CS == INSTANCE ChainSyncProps
SR == INSTANCE SigRuleProps WITH LenRule <- "equal", StoreRule <- "last", MissRule <- "reject", RegRule <- "append"
G  == INSTANCE Gossip WITH N <- NK, T <- T, Rounds <- <<>>, Flavour <- "gnosis"

ASSUME NEons = 1

KeyperIdx == 0..(NK - 1)
TheEon == 1

----------------------------------------------------------------------------
(* The chain: ChainSync's tree blk[b] = [num, par, evs] plus, per block, the transaction it
   carries: tx[b] = [g, i], g = gas class or "none", i = the index the sequencer contract gives
   the transaction (number of transactions on the branch before it).  Ranks[b] = byte-order rank
   of the identity (prefix ++ sender) of the transaction of block b. *)
NoTx == [g |-> "none", i |-> 0]
KeyOf(i) == "k" \o ToString(i)        \* ChainSync's event key of the transaction with index i (upsert key (index, eon))
ChainInit == [blk |-> << [num |-> 0, par |-> 0, evs |-> {}] >>, tx |-> <<NoTx>>, head |-> 1]

TxCount(ch, b) == Cardinality({a \in CS!AncSelf(ch.blk, b) : ch.tx[a].g # "none"})

AddBlock(ch, parent, g) ==
    LET i == TxCount(ch, parent) IN
    [blk  |-> Append(ch.blk, [num |-> ch.blk[parent].num + 1, par |-> parent, evs |-> IF g = "none" THEN {} ELSE {KeyOf(i)}]),
     tx   |-> Append(ch.tx, IF g = "none" THEN NoTx ELSE [g |-> g, i |-> i]),
     head |-> Len(ch.blk) + 1]

MineBlock(ch, g)  == AddBlock(ch, ch.head, g)                 \* the chain grows by one block
ReorgBlock(ch, g) == AddBlock(ch, ch.blk[ch.head].par, g)     \* depth-1 reorg: a sibling replaces the head

(* gnosis.SequencerSyncer as configured by keyper.go: AssumedReorgDepth 10, maxRequestBlockRange
   10000, SyncStartBlockNumber 0, after the repairs 041aef6 / dd1b084 *)
SyncCfg == [d |-> 10, maxr |-> 10000, start0 |-> 0, errm |-> "returned", reorg |-> "gap"]

(* SequencerSyncer.Sync(header of the head): processNewBlock runs it in the same goroutine as
   the slot processing, so a call is atomic for the rest of the keyper *)
SyncStep(ch, sy) == CS!Final(sy, CS!Run(SyncCfg, ch.blk, ch.head, sy, CS!NoFault))

(* transaction_submitted_event as GnosisSlot's queue: rows in index order *)
Contiguous(stored) == {r.key : r \in stored} = {KeyOf(i) : i \in 0..(Cardinality(stored) - 1)}
(* total also on tables the composition does not produce (a missing index, a row that is not the
   transaction of a block of the chain: bid < 1): the trace layer must yield a verdict, not an error *)
QueueOf(ch, stored) ==
    [i \in 1..Cardinality(stored) |->
        LET rows == {r \in stored : r.key = KeyOf(i - 1)} IN
        IF rows = {} THEN [r |-> 0, g |-> "Above"]
        ELSE LET row == CHOOSE r \in rows : TRUE IN
             IF row.bid \in DOMAIN ch.tx /\ row.bid \in DOMAIN Ranks /\ ch.tx[row.bid].g # "none"
             THEN [r |-> Ranks[row.bid], g |-> ch.tx[row.bid].g]
             ELSE [r |-> 0, g |-> "Above"]]

(* the synced state GnosisSlot!MaybeTriggerDecryption reads; fakeeth block n has the timestamp of
   slot n, a rollback writes slot 0 *)
EnvOf(ch, sy) ==
    [q |-> [e \in EonSet |-> QueueOf(ch, sy.stored)], active |-> TheEon,
     synced |-> IF sy.synced.hash = CS!Empty THEN 0 ELSE sy.synced.num,
     block |-> sy.synced.num]

----------------------------------------------------------------------------
(* contents and messages *)
Ct(slot, p, ids) == [slot |-> slot, p |-> p, ids |-> ids]
NoCt == Ct(0, 0, <<>>)
IdsOf(c) == {c.ids[i] : i \in DOMAIN c.ids}

NoM == [t |-> "-", from |-> 0, c |-> NoCt, signers |-> <<>>, sigs |-> <<>>, ok |-> TRUE]
(* DecryptionKeyShares with the gnosis extra (slot, tx pointer, signature of `from` over c) *)
SharesM(k, c) == [t |-> "shares", from |-> k, c |-> c, signers |-> <<>>, sigs |-> <<"ok">>, ok |-> TRUE]
(* DecryptionKeys with the gnosis extra (slot, tx pointer, signer indices, signatures) *)
KeysM(k, c, signers) ==
    [t |-> "keys", from |-> k, c |-> c, signers |-> signers, sigs |-> [i \in DOMAIN signers |-> "ok"], ok |-> TRUE]

KpInit(ch) == [s |-> KeyperInit, sy |-> SyncStep(ch, CS!St(CS!NoRow, {})), sh |-> {}, ky |-> {}, sg |-> {}]

ShareRows(ids, from) == {[id |-> id, from |-> from] : id \in ids}
NumShares(sh, id) == Cardinality({r \in sh : r.id = id})

(* InsertSlotDecryptionSignature: primary key (eon, slot, keyper_index), ON CONFLICT DO NOTHING *)
SigRow(c, from) == [slot |-> c.slot, from |-> from, p |-> c.p, ids |-> c.ids]
InsertSig(sg, row) == IF \E r \in sg : r.slot = row.slot /\ r.from = row.from THEN sg ELSE sg \cup {row}
RECURSIVE InsertSigs(_, _, _, _)
InsertSigs(sg, c, signers, i) ==
    IF i > Len(signers) THEN sg ELSE InsertSigs(InsertSig(sg, SigRow(c, signers[i])), c, signers, i + 1)
(* GetSlotDecryptionSignatures(eon, slot, tx_pointer, identities_hash) ORDER BY keyper_index LIMIT threshold *)
SignersFor(sg, c) == {r.from : r \in {x \in sg : x.slot = c.slot /\ x.p = c.p /\ x.ids = c.ids}}

CurOf(kp) == kp.s.cur[TheEon]
CurContent(kp) == Ct(CurOf(kp).slot, CurOf(kp).ptr, CurOf(kp).ids)

Res(kp, out) == [kp |-> kp, out |-> out]

----------------------------------------------------------------------------
(* validators *)

(* the case SigRule judges: every signature of an honest message is by the listed signer over the
   data the message carries *)
SigCase(m) ==
    [f |-> "gnosis", n |-> NK, t |-> T, signers |-> m.signers,
     sigs |-> [i \in DOMAIN m.sigs |->
                 [k |-> IF m.sigs[i] = "ok" THEN "ok" ELSE "garbage",
                  b |-> IF i \in DOMAIN m.signers /\ m.signers[i] \in KeyperIdx THEN m.signers[i] ELSE NK,
                  o |-> ""]],
     mut |-> "",
     ann |-> <<"S">>,       \* one keyper set announced for the eon, never re-announced
     key |-> "before"]      \* the eon key is stored before the keyper set is announced
Verdict(outcomes) == IF outcomes = {SR!Accept} THEN "accept" ELSE "reject"

(* gnosis DecryptionKeySharesHandler.ValidateMessage (extra present, sender index in range,
   signature of the sender over (instance, eon, slot, tx pointer, identities of the message)) and
   core DecryptionKeyShareHandler.ValidateMessage / checkKeyShares *)
ValidateShares(m) ==
    G!Combine(IF m.from \in KeyperIdx /\ m.sigs = <<"ok">> THEN "accept" ELSE "reject",
              IF m.ok /\ Len(m.c.ids) > 0 THEN "accept" ELSE "reject")
(* gnosis DecryptionKeysHandler.ValidateMessage (ValidateDecryptionKeysBasic + ...Signatures) and
   core DecryptionKeyHandler.ValidateMessage / checkKeysErrors *)
ValidateKeys(m) ==
    G!Combine(IF Len(m.c.ids) = 0 THEN "reject" ELSE Verdict(SR!ValidateMessage(SigCase(m))),
              IF m.ok THEN "accept" ELSE "reject")
ValidateMsg(m) == IF m.t = "shares" THEN ValidateShares(m) ELSE ValidateKeys(m)
(* gnosisaccessnode DecryptionKeysHandler.ValidateMessage: validateCommonFields (every key verifies
   against the eon key) then validateGnosisFields (the same signature function) *)
ANValidate(m) ==
    IF ~m.ok \/ Len(m.c.ids) = 0 THEN "reject" ELSE Verdict(SR!AccessValidateMessage(SigCase(m)))

----------------------------------------------------------------------------
(* middleware: interceptDecryptionKeyShares / interceptDecryptionKeys (messages WITHOUT extra that
   the keyper core sends through MessagingMiddleware) *)

(* ids = identities of the shares message, in message order *)
InterceptShares(kp, k, ids) ==
    LET cu == CurOf(kp) IN
    IF ~cu.row THEN Res(kp, <<>>)                           \* unknown decryption trigger: dropped
    ELSE IF cu.ids # ids THEN Res(kp, <<>>)                 \* unexpected identities hash: dropped
    ELSE LET c == Ct(cu.slot, cu.ptr, ids) IN
         Res([kp EXCEPT !.sg = InsertSig(@, SigRow(c, k))], <<SharesM(k, c)>>)

(* after fix C03-1 (identities hash of the keys compared with the current trigger's) *)
InterceptKeys(kp, k, ids) ==
    LET cu == CurOf(kp) IN
    IF ~cu.row THEN Res(kp, <<>>)
    ELSE IF cu.ids # ids THEN Res(kp, <<>>)
    ELSE LET c == Ct(cu.slot, cu.ptr, ids)
             signers == SignersFor(kp.sg, c) IN
         IF Cardinality(signers) < T THEN Res(kp, <<>>)     \* signature count not high enough yet
         ELSE Res([kp EXCEPT !.s.ptr[TheEon] = PtrRow(cu.ptr + Len(ids) - 1, 0)],     \* advanceTxPointer
                  <<KeysM(k, c, G!FirstT(signers))>>)

----------------------------------------------------------------------------
(* newslot.go processNewSlot -> maybeTriggerDecryption -> triggerDecryption -> the trigger channel
   -> KeyShareHandler.handleEvent -> ConstructDecryptionKeyShares -> SendMessage (middleware).
   r = what is observed: out (nil / err / emit), the trigger, the error class of the event *)
TickKeyper(ch, kp, k, s) ==
    LET x == MaybeTriggerDecryption(kp.s, EnvOf(ch, kp.sy), s)
        kp1 == [kp EXCEPT !.s = x.st] IN
    IF x.out # "emit" THEN [kp |-> kp1, out |-> <<>>, r |-> [out |-> x.out, trig |-> x.trig, err |-> ""]]
    ELSE LET ids == x.trig.ids
             mine == ShareRows(ToSet(ids), k) IN
         IF mine \subseteq kp1.sh                                        \* ErrSharesAlreadySent
         THEN [kp |-> kp1, out |-> <<>>, r |-> [out |-> "emit", trig |-> x.trig, err |-> "sharesexist"]]
         ELSE LET i == InterceptShares([kp1 EXCEPT !.sh = @ \cup mine], k, ids) IN
              [kp |-> i.kp, out |-> i.out, r |-> [out |-> "emit", trig |-> x.trig, err |-> ""]]

(* gnosis DecryptionKeySharesHandler.HandleMessage (SharesPath "raw": registered on the RAW
   messaging, its output is not intercepted, the tx pointer is not touched) *)
GnosisHandleShares(kp, j, m) ==
    LET sg1 == InsertSig(kp.sg, SigRow(m.c, m.from))
        signers == SignersFor(sg1, m.c)
        kp1 == [kp EXCEPT !.sg = sg1] IN
    IF Cardinality(signers) >= T /\ IdsOf(m.c) \subseteq kp.ky
    THEN Res(IF SharesPath = "wrapped"
             THEN [kp1 EXCEPT !.s.ptr[TheEon] = PtrRow(m.c.p + Len(m.c.ids) - 1, 0)]    \* interceptDecryptionKeys, Extra != nil
             ELSE kp1,
             <<KeysM(j, m.c, G!FirstT(signers))>>)
    ELSE Res(kp1, <<>>)

(* core DecryptionKeyShareHandler.HandleMessage, wrapped by the middleware *)
CoreHandleShares(kp, j, m) ==
    LET ids == IdsOf(m.c)
        kp1 == [kp EXCEPT !.sh = @ \cup ShareRows(ids, m.from)] IN
    IF ids \subseteq kp.ky THEN Res(kp1, <<>>)                                          \* allKeysExist
    ELSE IF \E id \in ids : NumShares(kp1.sh, id) < T THEN Res(kp1, <<>>)
    ELSE InterceptKeys([kp1 EXCEPT !.ky = @ \cup ids], j, m.c.ids)                      \* InsertDecryptionKeysMsg, then the middleware

(* gnosis DecryptionKeysHandler.HandleMessage *)
GnosisHandleKeys(kp, j, m) ==
    Res([kp EXCEPT !.s.ptr[TheEon] = PtrRow(m.c.p + Len(m.c.ids) - 1, 0),
                   !.sg = InsertSigs(@, m.c, m.signers, 1)], <<>>)
(* core DecryptionKeyHandler.HandleMessage *)
CoreHandleKeys(kp, j, m) == Res([kp EXCEPT !.ky = @ \cup IdsOf(m.c)], <<>>)

(* P2PMessaging.Handle: handlers in registration order (gnosis, then core) *)
HandleAll(kp, j, m) ==
    IF m.t = "shares"
    THEN LET a == GnosisHandleShares(kp, j, m)
             b == CoreHandleShares(a.kp, j, m) IN Res(b.kp, a.out \o b.out)
    ELSE LET a == GnosisHandleKeys(kp, j, m)
             b == CoreHandleKeys(a.kp, j, m) IN Res(b.kp, a.out \o b.out)

(* a delivery: combined topic validator, on accept the handlers *)
DeliverTo(kp, j, m) ==
    LET v == ValidateMsg(m)
        h == IF v = "accept" THEN HandleAll(kp, j, m) ELSE Res(kp, <<>>) IN
    [v |-> v, kp |-> h.kp, out |-> h.out]

(* keyper.go Start after a crash: ResetAllTxPointerAges, new Keyper object (the database stays) *)
RestartKeyper(kp) == [kp EXCEPT !.s = Restart(@)]

(* The PROJECTION of a keyper's tables that the composition follows shows, of the rows that are
   keyed by a slot, those of the current slot only: when the next slot begins (nothing in flight)
   the signatures of the finished slot and the shares / keys of its slot identity are left behind.
   Nothing reads them again: signatures are selected by slot, a slot identity occurs in the
   triggers of its own slot only.  (The final key judgement is made over ALL decryption_key rows.) *)
ForgetSlot(kp) ==
    [kp EXCEPT !.sg = {}, !.sh = {r \in @ : r.id.k # "slot"}, !.ky = {id \in @ : id.k # "slot"}]

(* publishing: own validators first (libp2p validates local publishes), gnosis keys are also seen
   by the access node, one copy per other keyper *)
RECURSIVE Publish(_, _, _)
Publish(i, out, k) ==
    IF k > Len(out) THEN [pk |-> EmptyBag, prod |-> <<>>]
    ELSE LET m == out[k]
             own == ValidateMsg(m)
             rest == Publish(i, out, k + 1)
             pk == IF own = "accept" THEN SetToBag({[m |-> m, d |-> j] : j \in KeyperIdx \ {i}}) ELSE EmptyBag IN
         [pk |-> pk (+) rest.pk,
          prod |-> <<[m |-> m, own |-> own, an |-> IF m.t = "keys" THEN ANValidate(m) ELSE "-"]>> \o rest.prod]

----------------------------------------------------------------------------
(* One step of the composed system.  w = [ch, kp (sequence, kp[k+1] = keyper k), slot];
   a = [a, n, g, m]:
     mine g / reorg g   the chain (g = gas class of the block's transaction or "none")
     sync n             keyper n's SequencerSyncer is called with the head
     restart n          keyper n restarts
     slot               the next slot begins
     tick n             keyper n's slot ticker fires for the current slot
     dlv n m / drop n m packet [m, d = n] is delivered / lost
   Result [w, o, out]: o = what is observed of the step (verdict of the receiver, trigger answer),
   out = messages the acting keyper hands to its raw messaging. *)
Act(a, n, g, m) == [a |-> a, n |-> n, g |-> g, m |-> m]
NoTrigR == [out |-> "-", trig |-> NoTrig, err |-> ""]
ObsRec(v, r) == [verdict |-> v, r |-> r]

WorldInit(first) == [ch |-> ChainInit, kp |-> [k \in 1..NK |-> KpInit(ChainInit)], slot |-> first]

ApplyAct(w, a) ==
    LET k == a.n + 1 IN
    CASE a.a = "mine"    -> [w |-> [w EXCEPT !.ch = MineBlock(@, a.g)], o |-> ObsRec("-", NoTrigR), out |-> <<>>]
      [] a.a = "reorg"   -> [w |-> [w EXCEPT !.ch = ReorgBlock(@, a.g)], o |-> ObsRec("-", NoTrigR), out |-> <<>>]
      [] a.a = "sync"    -> [w |-> [w EXCEPT !.kp[k].sy = SyncStep(w.ch, @)], o |-> ObsRec("-", NoTrigR), out |-> <<>>]
      [] a.a = "restart" -> [w |-> [w EXCEPT !.kp[k] = RestartKeyper(@)], o |-> ObsRec("-", NoTrigR), out |-> <<>>]
      [] a.a = "slot"    -> [w |-> [w EXCEPT !.slot = @ + 1, !.kp = [x \in DOMAIN @ |-> ForgetSlot(@[x])]],
                             o |-> ObsRec("-", NoTrigR), out |-> <<>>]
      [] a.a = "tick"    -> LET x == TickKeyper(w.ch, w.kp[k], a.n, w.slot) IN
                            [w |-> [w EXCEPT !.kp[k] = x.kp], o |-> ObsRec("-", x.r), out |-> x.out]
      [] a.a = "dlv"     -> LET x == DeliverTo(w.kp[k], a.n, a.m) IN
                            [w |-> [w EXCEPT !.kp[k] = x.kp], o |-> ObsRec(x.v, NoTrigR), out |-> x.out]
      [] a.a = "drop"    -> [w |-> w, o |-> ObsRec("-", NoTrigR), out |-> <<>>]

=============================================================================
