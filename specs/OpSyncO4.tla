------------------------------ MODULE OpSyncO4 ------------------------------
(***************************************************************************)
(* O4 of the OpSync stage: no handler panics / hangs on any event bytes.   *)
(* A finite table of input CLASSES per entry point, enumerated by TLC      *)
(* (one state per case, printed as JSON with the result class the code-    *)
(* shaped layer predicts), concretised and executed on the real code in a  *)
(* child process, and validated here again (TSpec):                        *)
(*   pass A  obsv : O4_Panic, O4_Hang, and two effects that are no crash   *)
(*                  but worth a line: O4_ServiceDown (one undecodable log  *)
(*                  ends the subscription -> the watch loop returns the    *)
(*                  error -> the errgroup cancels the whole client),       *)
(*                  O4_Truncated (a threshold >= 2^31 is stored as         *)
(*                  int32(threshold))                                      *)
(*   pass B  drift: the observed class is not the predicted one            *)
(*                                                                         *)
(* entry points                                                            *)
(*   wire-ks      a KeyperSetAdded log pushed to the subscription of a     *)
(*                running KeyperSetSyncer -> bindings' UnpackLog ->        *)
(*                newEvent (members / threshold are read from the KeyperSet*)
(*                contract named in the log) -> optimism newKeyperSet      *)
(*   wire-ek      an EonKeyBroadcast log -> EonPubKeySyncer -> handler     *)
(*   wire-head    a header -> UnsafeHeadSyncer -> optimism newBlock        *)
(*   direct-ks    optimism newKeyperSet called with an event value         *)
(*   direct-block optimism newBlock called with an event value             *)
(* classes: data valid | empty | short | garbage; topics ok | none | wrong;*)
(* addr tok | nocode; act zero | past | max63 (2^63-1) | two63 | max64;    *)
(* thr zero | one | nplus1 | two31 | two32p1 | two63; mem none | three |   *)
(* dup; nilf none | members | at | ev; num one | two63 | two64 | nil | evnil*)
(***************************************************************************)
EXTENDS Integers, Sequences, FiniteSets, TLC, Json, SequencesExt

CONSTANT EonOf     \* "recompute" (as found) | "event" (proposed repair OPSYNC-1: the watch loop reads nothing from the contracts)

Case(ep, data, topics, addr, act, thr, mem, nilf, num) ==
    [ep |-> ep, data |-> data, topics |-> topics, addr |-> addr, act |-> act, thr |-> thr, mem |-> mem, nilf |-> nilf, num |-> num]

ActC == {"zero", "past", "max63", "two63", "max64"}
ThrC == {"zero", "one", "nplus1", "two31", "two32p1", "two63"}
MemC == {"none", "three", "dup"}

Cases ==
    {Case("wire-ks", "valid", "ok", "tok", a, t, m, "none", "-") : a \in ActC, t \in ThrC, m \in MemC} \cup
    {Case("wire-ks", d, "ok", "tok", "past", "one", "three", "none", "-") : d \in {"empty", "short", "garbage"}} \cup
    {Case("wire-ks", "valid", tp, "tok", "past", "one", "three", "none", "-") : tp \in {"none", "wrong"}} \cup
    {Case("wire-ks", "valid", "ok", "nocode", a, "one", "three", "none", "-") : a \in {"past", "two63"}} \cup
    {Case("wire-ek", d, "ok", "-", "-", "-", "-", "none", "-") : d \in {"valid", "empty", "garbage", "emptykey"}} \cup
    {Case("wire-head", "valid", "ok", "-", "-", "-", "-", "none", n) : n \in {"one", "two63", "two64"}} \cup
    {Case("direct-ks", "valid", "ok", "-", a, t, "three", nf, "-") : a \in {"past", "two63"}, t \in {"one", "two31", "two63"}, nf \in {"none", "members", "at", "ev"}} \cup
    {Case("direct-block", "valid", "ok", "-", "-", "-", "-", "none", n) : n \in {"one", "two63", "two64", "nil", "evnil"}}

(* keyperimpl/optimism newKeyperSet on an event value: Uint64ToInt64Safe(eon), (activation block),
   (threshold), then InsertKeyperSet with int32(threshold) *)
HandlerClass(act, thr) ==
    IF act \in {"two63", "max64"} \/ thr = "two63" THEN "err"
    ELSE IF thr \in {"two31", "two32p1"} THEN "trunc" ELSE "ok"

Predict(c) ==
    CASE c.ep = "wire-ks" ->
           IF c.topics # "ok" \/ c.data \in {"short", "garbage"} THEN "down"      \* UnpackLog fails: the subscription ends
           ELSE IF EonOf = "recompute" /\ (c.data = "empty" \/ c.addr = "nocode") THEN "drop"   \* no contract at the address: newEvent fails, logged
           ELSE IF c.data = "empty" THEN "ok"                                     \* UnpackLog skips empty data: an all-zero event
           ELSE LET h == HandlerClass(c.act, c.thr) IN IF h = "err" THEN "err" ELSE "ok"
      [] c.ep = "wire-ek" -> IF c.data = "garbage" THEN "down" ELSE "called"
      [] c.ep = "wire-head" -> "trigger"
      [] c.ep = "direct-ks" ->
           IF c.nilf = "ev" THEN "panic"
           ELSE LET h == HandlerClass(c.act, c.thr) IN
                IF h = "err" THEN "err" ELSE IF h = "trunc" THEN "stored-trunc" ELSE "stored"
      [] c.ep = "direct-block" -> IF c.num \in {"nil", "evnil"} THEN "panic" ELSE "trigger"

VARIABLES cur, l, obsv, drift
ovars == <<cur, l, obsv, drift>>
Init == cur \in Cases /\ l = 0 /\ obsv = {} /\ drift = {}
Next == UNCHANGED ovars
Spec == Init /\ [][Next]_ovars
EmitInv == PrintT(<<"CASE", ToJson([c |-> cur, want |-> Predict(cur)])>>)

----------------------------------------------------------------------------
CONSTANT TraceFile
Trace == ndJsonDeserialize(TraceFile)

LineObs(line) ==
    (IF line.got = "panic" THEN {"O4_Panic"} ELSE {}) \cup
    (IF line.got = "hang" THEN {"O4_Hang"} ELSE {}) \cup
    (IF line.got = "down" THEN {"O4_ServiceDown"} ELSE {}) \cup
    (IF line.got = "stored-trunc" THEN {"O4_Truncated"} ELSE {})

TInit == cur = 0 /\ l = 1 /\ obsv = {} /\ drift = {}
TNext ==
    /\ l <= Len(Trace) /\ l' = l + 1 /\ UNCHANGED cur
    /\ LET line == Trace[l] IN
       /\ obsv' = obsv \cup {<<l, m>> : m \in LineObs(line)}
       /\ drift' = drift \cup (IF line.c \in Cases /\ Predict(line.c) = line.got THEN {} ELSE {l})
TSpec == TInit /\ [][TNext]_ovars
Done == l <= Len(Trace) \/
        PrintT(<<"RESULT", ToJson([lines |-> Len(Trace), obsv |-> SetToSeq(obsv), drift |-> SetToSeq(drift)])>>)
=============================================================================
