------------------------------- MODULE EpochKG -------------------------------
(***************************************************************************)
(* C01, part A: the in-memory aggregation of epoch secret key shares,      *)
(* keyper/epochkg/epochkg.go.                                              *)
(*                                                                         *)
(* Code-shaped layer: Handle mirrors HandleEpochSecretKeyShare +           *)
(* addEpochSecretKeyShare statement by statement.  Cryptography is         *)
(* abstracted to tokens: a share token names its sender, the identity it   *)
(* is presented for, and how it was made:                                  *)
(*   "valid"     the sender's share for that identity under the eon key    *)
(*   "otherId"   the sender's valid share for ANOTHER identity             *)
(*   "otherEon"  the sender's share for that identity under another eon key*)
(*   "garbage"   an arbitrary G1 point                                     *)
(* The pairing check accepts exactly the "valid" ones (on the code side    *)
(* this is not assumed: the real pairing check runs on real objects).      *)
(* Interpolating T distinct valid shares gives the epoch secret key        *)
(* ("good"); the code side observes that by byte equality with the         *)
(* dealer's key and by decrypting a message encrypted to the eon key.      *)
(***************************************************************************)
EXTENDS Integers, Sequences, FiniteSets, SequencesExt, FiniteSetsExt, TLC

CONSTANTS N, T, Idents, ShareKinds

Senders == 0..(N - 1)
Tokens == [s : Senders, id : Idents, kind : ShareKinds]
Valid(tok) == tok.kind = "valid"

InSeq(q, x) == \E i \in DOMAIN q : q[i] = x

KGInit == [pending |-> [i \in Idents |-> <<>>], key |-> [i \in Idents |-> "none"]]

(* returns [kg, err]; err is "" or the class of the Go error *)
Handle(kg, tok) ==
    IF kg.key[tok.id] # "none" THEN [kg |-> kg, err |-> ""]                 \* "We already have the key"
    ELSE IF ~Valid(tok) THEN [kg |-> kg, err |-> "verify"]                  \* VerifyEpochSecretKeyShare failed
    ELSE IF InSeq(kg.pending[tok.id], tok.s) THEN [kg |-> kg, err |-> "dup"]
    ELSE LET shares == Append(kg.pending[tok.id], tok.s) IN
         IF Len(shares) # T
         THEN [kg |-> [kg EXCEPT !.pending[tok.id] = shares], err |-> ""]
         ELSE [kg |-> [kg EXCEPT !.pending[tok.id] = <<>>, !.key[tok.id] = "good"], err |-> ""]

----------------------------------------------------------------------------
(* Property layer, over one observed step.  ghost = set of <<sender, id>> of valid tokens
   delivered so far (ground truth from the inputs, not from the object under test). *)

GhostNext(gh, tok) == IF Valid(tok) THEN gh \cup {<<tok.s, tok.id>>} ELSE gh
ValidSenders(gh, id) == {p[1] : p \in {q \in gh : q[2] = id}}

(* a key exists exactly when T distinct valid shares were delivered, never from fewer *)
C01_Exact(gh, pre, tok, post) ==
    \A id \in Idents : (post.key[id] # "none") <=> (Cardinality(ValidSenders(GhostNext(gh, tok), id)) >= T)

(* every derived key is THE correct key *)
C01_Correct(gh, pre, tok, post) == \A id \in Idents : post.key[id] \in {"none", "good"}

(* invalid or duplicate shares never alter, block or poison the result *)
C01_NoPoison(gh, pre, tok, post) ==
    (~Valid(tok) \/ <<tok.s, tok.id>> \in gh) => post = pre

(* a derived key is never lost or replaced *)
C01_Stable(gh, pre, tok, post) == \A id \in Idents : pre.key[id] = "good" => post.key[id] = "good"

MonitorNames == {"C01_Exact", "C01_Correct", "C01_NoPoison", "C01_Stable"}
Failed(gh, pre, tok, post) ==
    (IF C01_Exact(gh, pre, tok, post) THEN {} ELSE {"C01_Exact"}) \cup
    (IF C01_Correct(gh, pre, tok, post) THEN {} ELSE {"C01_Correct"}) \cup
    (IF C01_NoPoison(gh, pre, tok, post) THEN {} ELSE {"C01_NoPoison"}) \cup
    (IF C01_Stable(gh, pre, tok, post) THEN {} ELSE {"C01_Stable"})
=============================================================================
