------------------------------- MODULE DKGMC -------------------------------
(***************************************************************************)
(* The DKG operators as a transition system over a finite op alphabet:     *)
(* exhaustive check of the C07 monitors on the code-shaped spec and        *)
(* generation of the behaviours (adversary strategy + block placement of   *)
(* every message) that harness/dkg replays on the real code.               *)
(* hist (alphabet indices) is hidden by the VIEW; EmitFinal prints the     *)
(* first history that reaches each distinct final state, i.e. one complete *)
(* run per distinct outcome of the bounded model.                          *)
(***************************************************************************)
EXTENDS DKGProps, Json, SequencesExt, FiniteSetsExt

CONSTANTS MaxRej, Emit, AccuseAny, Windows, Partial, MaxReload, MaxLag, Overlap, Timely, ReloadMax, Focus, Mixed

VARIABLES st, g, last, hist
vars == <<st, g, last, hist>>

Vals(S, dom) == [S -> dom]

(* all assignments f : K -> dom \cup {Blank} with f[i] = Blank outside S, not all Blank
   (Partial = FALSE: the reduced alphabet of the quick tier, every keyper of S is named) *)
Assign(S, dom) == {f \in [K -> dom \cup {Blank}] : /\ (\A i \in K \ S : f[i] = Blank)
                                                    /\ (\E i \in S : f[i] # Blank)
                                                    /\ (Partial \/ (\A i \in S : f[i] # Blank))}

(* Focus selects the Byzantine message kinds: "all"; "apol" (good commitment, full evaluation
   messages, apologies of every shape, no accusations); "late" (commitments, full evaluation
   messages, accusations, no apologies).  Mixed adds apologies with out-of-range entries and, for
   messages with two or more entries, the reversed entry order. *)
Named2(f) == Cardinality({i \in K : f[i] # Blank}) >= 2
WithRev(o, S) == {OpR(o, x[1], x[2], FALSE) : x \in S} \cup
                 (IF Mixed THEN {OpR(o, x[1], x[2], TRUE) : x \in {y \in S : Named2(y[2])}} ELSE {})
Targets(b) == IF AccuseAny THEN K \ {b} ELSE Honest

AlphabetSet ==
    UNION {
        {Op("bcommit", b, [BlankVals EXCEPT ![b] = c]) : c \in IF Focus = "apol" THEN {"good"} ELSE {"good", "baddeg"}} \cup
        {Op("beval", b, f) : f \in Assign(Honest, {"ok", "bad"})} \cup
        (IF Focus = "apol" THEN {} ELSE WithRev("bacc", {<<b, f>> : f \in Assign(Targets(b), {"x"})})) \cup
        (IF Focus = "late" THEN {} ELSE
            WithRev("bapol", {<<b, f>> : f \in Assign(Targets(b), IF Mixed THEN {"ok", "bad", "oor"} ELSE {"ok", "bad"})}))
      : b \in Byz} \cup
    {Op("post", k, BlankVals) : k \in Honest} \cup
    (IF MaxReload > 0 THEN {Op("reload", k, BlankVals) : k \in Honest} ELSE {}) \cup
    (IF MaxLag > 0 THEN {Op("lag", k, BlankVals) : k \in Honest} ELSE {}) \cup
    {Op("end", 0, BlankVals)}

Alphabet == SetToSeq(AlphabetSet)

ASSUME PrintT(<<"ALPHABET", ToJson(Alphabet)>>)
ASSUME PrintT(<<"CONST", ToJson([n |-> N, t |-> T, byz |-> SetSeq(Byz), phaseLen |-> PhaseLen, init |-> InitState])>>)
ASSUME Cardinality(Byz) <= N - T /\ Byz \subseteq K /\ T >= 1 /\ T <= N

Init == st = [InitState EXCEPT !.ov = Overlap] /\ g = GhostInit /\ last = 0 /\ hist = <<>>

Step(i) ==
    LET o == Alphabet[i] IN
    /\ OpEnabledX(st, o, MaxRej, Windows, MaxReload, MaxLag, Timely, ReloadMax)
    /\ LET x == ApplyOp(st, o) IN
       /\ st' = x.st
       /\ g' = GhostNext(g, st, o, x.out)
    /\ last' = i
    /\ hist' = Append(hist, i)

Next == \E i \in DOMAIN Alphabet : Step(i)
Spec == Init /\ [][Next]_vars

(* C07 on the code-shaped layer: the monitors hold on what the spec predicts to be observed, in
   every reachable state (partial results included; the "all report success" part at the end) *)
C07_Spec == Failed(SpecFin(st), g) \ (IF Final(st) THEN {} ELSE {"C07_Live"}) = {}

(* the direct statement: honest keypers that succeed summed the same dealers, at least T of them *)
Agreement == \A i, j \in Honest :
    (st.kp[i].done /\ st.kp[i].ok /\ st.kp[j].done /\ st.kp[j].ok) =>
        /\ st.kp[i].qual = st.kp[j].qual
        /\ Cardinality({d \in K : st.kp[i].qual[d]}) >= T

LivePremise == Byz = {} /\ \A i \in K : g.cin[i] /\ g.ein[i]
(* behaviours that are always replayed: a message whose peculiarity leaves no trace in the model
   (reversed entries, out-of-range entry) followed by a reload of an honest keyper; a Byzantine
   message in the block in which the previous eon is finalised (the real shiftPhases ranges over a
   Go map there: repeated to sample both orders) *)
Prio == \/ st.tags.rv /\ st.tags.oor /\ \E i \in Honest : st.rl[i] > st.tags.at
        \/ st.tags.bnd
EmitFinal == (~Emit) \/ ~Final(st) \/ PrintT(<<"B", ToJson([h |-> hist, live |-> LivePremise \/ Prio])>>)
View == <<st, g>>

=============================================================================
