------------------------------ MODULE SMConst_thr ------------------------------
(* threshold-change universe (C12): the genesis set {a1,a2} has threshold 2, its successor {a2,a3} has
   threshold 1. Whether the successor is started depends on the reports of a threshold OF THE
   PREDECESSOR (2), not of the successor (1). Within seven ops: both votes, ONE block report, both
   check-ins of the successor, one block: the successor must not take over the validator set. *)
cAddrs == {"a1", "a2", "a3"}
cKeyOrd == <<"v1", "none", "v3", "v9">>
cGenesis == [keypers |-> <<"a1", "a2">>, thr |-> 2, eon0 |-> 0,
             vals |-> [k \in {"v1", "none", "v3", "v9"} |-> IF k = "v9" THEN 10 ELSE 0],
             forkOn |-> FALSE, forkH |-> 0, dev |-> FALSE, legacy |-> FALSE]
cCands == << [keypers |-> <<"a2", "a3">>, thr |-> 1, act |-> 1, idx |-> 1] >>
cSeenBlocks == {1}
cCheckKeys == {"v1"}
cEons == {1}
=============================================================================
