--------------------------- MODULE PrimevFlowTrace ---------------------------
(***************************************************************************)
(* Validation of traces recorded from the real primev code: per run a      *)
(* "new" line (universe), then one line per step                           *)
(*   cmt   a commitment delivered to keyper n: the real combined topic     *)
(*         validator, P2PMessaging.Handle (PrimevCommitmentHandler), the   *)
(*         trigger taken by the real KeyShareHandler, what it published    *)
(*   eon   eon 2 inserted into keyper n's eons table                       *)
(*   env   a step of the chain script on the fake execution node           *)
(*   sync  Keyper.processNewBlock = ProviderRegistrySyncer.Sync at keyper n*)
(*   dlv / dup / drop   a shares / keys packet of the simulated network    *)
(*   end   end of the run (packets still in flight, final tables)          *)
(* with the projected tables after the step.  A deterministic fold:        *)
(*   pass A  viol: the C05 monitors (host property) on observed data;      *)
(*           info: the P1..P5 / R monitors on observed data (OBSERVATION)  *)
(*   pass B  drift: the observed step is not the step of the code-shaped   *)
(*           layer applied to the previously OBSERVED state                *)
(***************************************************************************)
EXTENDS PrimevFlowProps, Json
CONSTANT TraceFile
Trace == ndJsonDeserialize(TraceFile)
VARIABLES l, st, viol, info, drift
tvars == <<l, st, viol, info, drift>>

SeqSet(q) == {q[k] : k \in DOMAIN q}
ObsNode(o) == [shares |-> [id \in G!IdSet |-> SeqSet(o.shares[ToString(id)])], keys |-> [id \in G!IdSet |-> o.keys[ToString(id)]],
               sigs |-> [r \in G!RoundIdx |-> {}], cur |-> 0, ptr |-> -1]
ObsTabs(line) == [i \in Nodes |-> ObsNode(line.tabs[i + 1])]
(* share / key rows that belong to no identity of the universe or to another keyper config index *)
NoAlien(line) == \A i \in Nodes : line.tabs[i + 1].alien = 0
ObsKs(e2, o, reg) == [e2 |-> e2, rows |-> SeqSet(o.rows), cms |-> SeqSet(o.cms), reg |-> reg]
ObsReg(s) == St(s.synced, SeqSet(s.stored))
ObsUni(u) == [kind2 |-> u.kind2, eon2 |-> u.eon2]

RECURSIVE PacketsOf(_, _, _)
PacketsOf(i, prod, k) ==
    IF k > Len(prod) THEN EmptyBag
    ELSE (IF prod[k].own = "accept" THEN SetToBag({[m |-> prod[k].m, d |-> j] : j \in Nodes \ {i}}) ELSE EmptyBag)
         (+) PacketsOf(i, prod, k + 1)

StInit(u) == [u |-> u, ks |-> [i \in Nodes |-> KsInit(u)], nd |-> [i \in Nodes |-> G!NodeInit], net |-> EmptyBag,
              g |-> [i \in Nodes |-> GhostInit], blk |-> <<RootBlk>>, canon |-> 1]
TInit == l = 1 /\ st = StInit([kind2 |-> "absent", eon2 |-> "known"]) /\ viol = {} /\ info = {} /\ drift = {}

OwnSharesOf(tabs, i) == {id \in G!IdSet : i \in tabs[i].shares[id]}
Tag(S) == {<<l, m>> : m \in S}

TNext ==
    /\ l <= Len(Trace) /\ l' = l + 1
    /\ LET line == Trace[l] IN
       CASE line.k = "new" ->
              LET s0 == StInit(ObsUni(line.u)) IN
              /\ st' = s0
              /\ drift' = drift \cup (IF ObsTabs(line) = s0.nd THEN {} ELSE {l})
              /\ UNCHANGED <<viol, info>>
         [] line.k = "cmt" ->
              LET n == line.n
                  o == [c |-> line.c, f |-> line.f, v |-> line.v, res |-> line.res, out |-> line.out, prod |-> line.prod,
                        panic |-> line.panic, hang |-> line.hang]
                  tabs == ObsTabs(line)
                  kso == ObsKs(line.e2, line.ksn, st.ks[n].reg)
                  g2 == GhostNext(st.g[n], line.e2, o)
                  r == CmtDeliver(st.u, st.ks[n], st.nd[n], n, line.c, line.f)
                  quiet == line.panic = "" /\ line.hang = ""
              IN /\ viol' = viol \cup Tag(C05Failed(o))
                 /\ info' = info \cup (IF quiet
                              THEN Tag(CmtFailed(o, g2, line.e2, kso, OwnSharesOf(tabs, n), st.u.kind2) \cup CmtInfo(o, SeqSet(line.regkeys))
                                       \cup P4StepFailed("-", line.prod, tabs))
                              ELSE {})
                 /\ drift' = drift \cup (IF /\ line.e2 = st.ks[n].e2 /\ r.v = line.v /\ r.res = line.res /\ r.out = line.out
                                            /\ r.pub.prod = line.prod /\ r.ks.rows = kso.rows /\ r.ks.cms = kso.cms
                                            /\ [st.nd EXCEPT ![n] = r.nd] = tabs /\ quiet /\ NoAlien(line)
                                         THEN {} ELSE {l})
                 /\ st' = [st EXCEPT !.ks[n] = kso, !.nd = tabs, !.g[n] = g2, !.net = @ (+) PacketsOf(n, line.prod, 1)]
         [] line.k = "eon" ->
              LET n == line.n
                  kso == ObsKs(TRUE, line.ksn, st.ks[n].reg) IN
              /\ info' = info \cup Tag(EonFailed(TRUE, kso))
              /\ drift' = drift \cup (IF kso = LearnEon(st.ks[n]) /\ ObsTabs(line) = st.nd THEN {} ELSE {l})
              /\ st' = [st EXCEPT !.ks[n] = kso]
              /\ UNCHANGED viol
         [] line.k = "env" ->
              LET r == EnvApply(st.blk, st.canon, line.e) IN
              /\ st' = [st EXCEPT !.blk = r.blk, !.canon = r.canon]
              /\ UNCHANGED <<viol, info, drift>>
         [] line.k = "sync" ->
              LET n == line.n
                  states == [k \in DOMAIN line.states |-> ObsReg(line.states[k])]
                  r == PRun(st.blk, st.canon, st.ks[n].reg, line.f)
                  quiet == line.panic = "" /\ line.hang = ""
              IN /\ viol' = viol \cup Tag((IF line.panic = "" THEN {} ELSE {"C05_NoPanic"}) \cup (IF line.hang = "" THEN {} ELSE {"C05_NoHang"}))
                 /\ info' = info \cup (IF quiet THEN Tag(RegFailed(st.blk, st.canon, states)) ELSE {})
                 /\ drift' = drift \cup (IF /\ states[1] = st.ks[n].reg /\ states = <<st.ks[n].reg>> \o r.seq
                                            /\ line.ret = r.ret /\ quiet
                                         THEN {} ELSE {l})
                 /\ st' = [st EXCEPT !.ks[n].reg = states[Len(states)]]
         [] line.k = "end" ->
              /\ info' = info \cup Tag(IF line.pending = 0 THEN P4EndFailed(ObsTabs(line)) ELSE {"P4_AllHaveKeys"})
              /\ drift' = drift \cup (IF st.net = EmptyBag /\ ObsTabs(line) = st.nd /\ NoAlien(line) THEN {} ELSE {l})
              /\ UNCHANGED <<st, viol>>
         [] OTHER ->     \* dlv | dup | drop of the simulated network
              LET pk == [m |-> line.m, d |-> line.n]
                  tabs == ObsTabs(line)
                  quiet == line.panic = "" /\ line.hang = "" IN
              /\ viol' = viol \cup Tag((IF line.panic = "" THEN {} ELSE {"C05_NoPanic"}) \cup (IF line.hang = "" THEN {} ELSE {"C05_NoHang"}))
              /\ CASE line.k = "dlv" ->
                        IF line.missing \/ line.m.r \notin DOMAIN Lists \/ line.m.t \notin {"shares", "keys"}
                        THEN /\ drift' = drift \cup {l}      \* also: a message that carries none of the universe's identity lists
                             /\ info' = info
                             /\ st' = [st EXCEPT !.nd = tabs]
                        ELSE LET j == line.n
                                 r == NetDeliver(st.nd[j], j, line.m) IN
                             /\ info' = info \cup (IF quiet THEN Tag(P4StepFailed(line.verdict, line.prod, tabs)) ELSE {})
                             /\ drift' = drift \cup (IF /\ pk \in DOMAIN st.net /\ r.v = line.verdict /\ [st.nd EXCEPT ![j] = r.nd] = tabs
                                                        /\ r.pub.prod = line.prod /\ line.err = "" /\ quiet /\ NoAlien(line) THEN {} ELSE {l})
                             /\ st' = [st EXCEPT !.nd = tabs,
                                                 !.net = (IF pk \in DOMAIN @ THEN @ (-) SetToBag({pk}) ELSE @) (+) PacketsOf(j, line.prod, 1)]
                   [] line.k = "dup" ->
                        /\ drift' = drift \cup (IF ~line.missing /\ pk \in DOMAIN st.net /\ st.nd = tabs THEN {} ELSE {l})
                        /\ st' = [st EXCEPT !.nd = tabs, !.net = IF line.missing THEN @ ELSE @ (+) SetToBag({pk})]
                        /\ info' = info
                   [] line.k = "drop" ->
                        /\ drift' = drift \cup (IF ~line.missing /\ pk \in DOMAIN st.net /\ st.nd = tabs THEN {} ELSE {l})
                        /\ st' = [st EXCEPT !.nd = tabs, !.net = [q \in (DOMAIN @) \ {pk} |-> @[q]]]
                        /\ info' = info
TSpec == TInit /\ [][TNext]_tvars
Done == l <= Len(Trace) \/
        PrintT(<<"RESULT", ToJson([lines |-> Len(Trace), viol |-> SetToSeq(viol), info |-> SetToSeq(info), drift |-> SetToSeq(drift)])>>)
===============================================================================
