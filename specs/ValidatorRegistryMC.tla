------------------------- MODULE ValidatorRegistryMC -------------------------
(***************************************************************************)
(* Two keypers running the validator syncer of ValidatorRegistry.tla over  *)
(* one chain that an environment builds:                                   *)
(*   Mine(p, evs)   a new head on top of the canonical block p (p = tip:   *)
(*                  extension, else a fork when MaxLeaves > 1) holding 0,  *)
(*                  1 or 2 registry events at positions 0 / 1 drawn from   *)
(*                  the plan's alphabet EvKinds                            *)
(*   Switch(b)      (fork plans) the head becomes an existing block        *)
(*   Sync(k, t, f)  keyper k calls Sync with the header of the canonical   *)
(*                  block with number t (> its position) while the beacon  *)
(*                  API is in state f                                      *)
(* Plans without forks build the chain first, then keyper 1 syncs with any *)
(* partition of the chain into calls up to any block, then keyper 2 with   *)
(* any partition up to the head (the databases are separate, so nothing is *)
(* lost by not interleaving them).  Block numbers are multiples of Stretch *)
(* (Stretch > MaxR/2 makes one call work through several ranges).          *)
(* hist and last are hidden by the VIEW; tags (part of the VIEW) collects   *)
(* the shapes of the calls made so far, so that a history is printed for   *)
(* every reachable state AND every way of batching that differs in shape.  *)
(* TLC checks the property layer on every state (CheckProps) and prints    *)
(* one history per distinct terminal (state, tags).                        *)
(***************************************************************************)
EXTENDS ValidatorRegistryProps, Json, SequencesExt

CONSTANTS
    EvKinds,      \* sequence of events (pos ignored): the alphabet
    OnceKinds,    \* indices of EvKinds used at most once per tree (the inadmissible classes)
    MaxOnce,      \* at most this many events of OnceKinds per tree
    PosSet,       \* positions a single event may take
    MaxPerBlock,  \* 1 or 2
    MaxBlocks, MaxEvents, MaxLeaves, Stretch,
    Faults,       \* beacon states besides "none" that a call may meet
    MaxFaults,    \* at most this many faulty calls per history
    Forky,   \* TRUE: mine / switch / sync in any order (fork plans)
    CheckProps,   \* TRUE: the property layer is an invariant of the model
    Emit

VARIABLES blk, canon, kp, cur, tags, nf, bad, last, hist
vars == <<blk, canon, kp, cur, tags, nf, bad, last, hist>>

K == {1, 2}
FaultSeq == <<"none", "b500", "bdown">>
FIdx(f) == CHOOSE i \in 1..3 : FaultSeq[i] = f

At(i, p) == [EvKinds[i] EXCEPT !.pos = p]

Init ==
    /\ blk = << [num |-> 0, par |-> 0, evs |-> <<>>] >>
    /\ canon = 1
    /\ kp = [k \in K |-> St(NoRow, {})]
    /\ cur = 0 /\ tags = {} /\ nf = 0 /\ bad = {}
    /\ last = [op |-> "init", k |-> 0, ret |-> "ok", viol |-> {}]
    /\ hist = <<>>

Leaves(b) == {x \in DOMAIN b : \A y \in DOMAIN b : b[y].par # x}
Used(b) == UNION {{b[x].evs[j] : j \in 1..Len(b[x].evs)} : x \in DOMAIN b}
NumEvents(b) == LET n[x \in 0..Len(b)] == IF x = 0 THEN 0 ELSE n[x - 1] + Len(b[x].evs) IN n[Len(b)]
KindOf(e) == CHOOSE i \in DOMAIN EvKinds : [EvKinds[i] EXCEPT !.pos = e.pos] = e
OnceUsed(b) == {KindOf(e) : e \in Used(b)} \cap OnceKinds

(* block contents: sequences of <<kind, pos>> *)
Contents ==
    {<<>>} \cup {<< <<i, p>> >> : i \in DOMAIN EvKinds, p \in PosSet}
    \cup (IF MaxPerBlock >= 2 THEN {<< <<i, 0>>, <<j, 1>> >> : i \in DOMAIN EvKinds, j \in DOMAIN EvKinds} ELSE {})

Mine(p, c) ==
    /\ Forky \/ cur = 0
    /\ Len(blk) < MaxBlocks
    /\ p \in AncSelf(blk, canon)
    /\ NumEvents(blk) + Len(c) <= MaxEvents
    /\ LET ks == {c[j][1] : j \in 1..Len(c)} IN
       /\ ks \cap OnceUsed(blk) = {}
       /\ (Len(c) = 2 /\ c[1][1] \in OnceKinds) => c[1][1] # c[2][1]
       /\ Cardinality(OnceUsed(blk)) + Cardinality({j \in 1..Len(c) : c[j][1] \in OnceKinds}) <= MaxOnce
    /\ LET nb == Append(blk, [num |-> blk[p].num + Stretch, par |-> p, evs |-> [j \in 1..Len(c) |-> At(c[j][1], c[j][2])]]) IN
       /\ Cardinality(Leaves(nb)) <= MaxLeaves
       /\ blk' = nb
    /\ canon' = Len(blk) + 1
    /\ last' = [op |-> "mine", k |-> 0, ret |-> "ok", viol |-> {}]
    /\ hist' = Append(hist, <<0, p>> \o (IF Len(c) >= 1 THEN c[1] ELSE <<0, 0>>) \o (IF Len(c) >= 2 THEN c[2] ELSE <<0, 0>>))
    /\ UNCHANGED <<kp, cur, tags, nf, bad>>

Switch(b) ==
    /\ Forky /\ MaxLeaves > 1
    /\ b \in DOMAIN blk /\ b # canon /\ b \in Leaves(blk)
    /\ canon' = b
    /\ last' = [op |-> "switch", k |-> 0, ret |-> "ok", viol |-> {}]
    /\ hist' = Append(hist, <<2, b>>)
    /\ UNCHANGED <<blk, kp, cur, tags, nf, bad>>

(* everything that fails in the state after a call of keyper k (the other keyper's table is judged
   after its own calls: the chain may have moved meanwhile) *)
Viol(b, c, kq, k, pre, tgt, f, ret) ==
    LET ref == RefAll(b, c) IN
    V1_FailedR(b, c, kq[k], ref)
    \cup V2_Failed(pre, kq[k], tgt, f, ret)
    \cup V3_Failed({kq[x] : x \in K})
    \cup V4_FailedR(b, c, kq[k], DecsOf(b, c, kq[k]), ref)

(* shape of a call: number of ranges, and per call whether a range holds several events, two
   events covering the same validator, an inadmissible event before a kept one *)
Shape(k, st, tgt, f, r) ==
    LET start == IF st.synced.has THEN st.synced.num + 1 ELSE 0
        rs == Ranges(start, tgt, MaxR)
        kept == r.st.rows \ st.rows
        (* per range: the events as [idx |-> indices covered, kept |-> stored by this call] *)
        ev == [i \in 1..Len(rs) |->
                 LET es == EventsIn(blk, canon, rs[i][1], rs[i][2]) IN
                 [j \in 1..Len(es) |->
                    [idx |-> IF es[j].e.ver = 1 /\ es[j].e.k >= BigK THEN {} ELSE {Indices(es[j].e)[x] : x \in 1..Len(Indices(es[j].e))},
                     kept |-> \E q \in kept : q.num = es[j].num /\ q.pos = es[j].e.pos]]]
    IN [k |-> k, nr |-> IF Len(rs) > 3 THEN 3 ELSE Len(rs), f |-> f, ret |-> r.ret,
        multi |-> \E i \in 1..Len(rs) : Len(ev[i]) >= 2,
        same |-> \E i \in 1..Len(rs) : \E a, b \in 1..Len(ev[i]) : a < b /\ ev[i][a].idx \cap ev[i][b].idx # {},
        bx |-> \E i \in 1..Len(rs) : \E a, b \in 1..Len(ev[i]) : a < b /\ ~ev[i][a].kept /\ ev[i][b].kept,
        lower |-> \E x \in kept : \E q \in st.rows : q.v = x.v /\ q.pos > x.pos]

Sync(k, tgt, f) ==
    /\ Forky \/ k >= cur
    /\ \E b \in AncSelf(blk, canon) : blk[b].num = tgt /\ tgt > 0
    /\ ~kp[k].synced.has \/ tgt > kp[k].synced.num
    /\ f # "none" => nf < MaxFaults
    /\ LET r == Run(blk, canon, kp[k], tgt, f)
           kq == [kp EXCEPT ![k] = r.st]
       IN /\ f # "none" => r # Run(blk, canon, kp[k], tgt, "none")
          /\ kp' = kq
          /\ tags' = tags \cup {Shape(k, kp[k], tgt, f, r)}
          /\ LET vs == Viol(blk, canon, kq, k, kp[k], tgt, f, r.ret) IN
             /\ last' = [op |-> "sync", k |-> k, ret |-> r.ret, viol |-> vs]
             /\ bad' = bad \cup vs
    /\ cur' = IF Forky THEN 0 ELSE k
    /\ nf' = IF f = "none" THEN nf ELSE nf + 1
    /\ hist' = Append(hist, <<1, k, tgt, FIdx(f)>>)
    /\ UNCHANGED <<blk, canon>>

Next ==
    \/ /\ Forky \/ cur = 0
       /\ Len(blk) < MaxBlocks
       /\ \E p \in AncSelf(blk, canon), c \in Contents : Mine(p, c)
    \/ /\ Forky /\ MaxLeaves > 1
       /\ \E b \in DOMAIN blk : Switch(b)
    \/ \E k \in K, b \in DOMAIN blk, f \in {"none"} \cup Faults : Sync(k, blk[b].num, f)

Spec == Init /\ [][Next]_vars

(* the property layer as an invariant of the code-shaped layer; a counterexample is a lead that is
   replayed on the real code *)
PropInv == (~CheckProps) \/ last.viol = {} \/ (PrintT(<<"CEX", ToJson([h |-> hist, viol |-> SetToSeq(last.viol)])>>) /\ FALSE)

AtHead(k) == kp[k].synced.has /\ kp[k].synced.num = blk[canon].num
Terminal ==
    /\ last.op = "sync"
    /\ \/ last.ret \in {"panic", "hang"}
       \/ IF Forky THEN Len(blk) = MaxBlocks /\ \A k \in K : AtHead(k)
          ELSE last.k = 2 /\ AtHead(2)

EmitInv == (~Emit) \/ ~Terminal \/
           PrintT(<<"B", ToJson([h |-> hist, bad |-> SetToSeq(bad), tags |-> SetToSeq(tags)])>>)

ASSUME PrintT(<<"CONST", ToJson([kinds |-> EvKinds, nv |-> NV, aggOn |-> AggOn, stretch |-> Stretch, maxr |-> MaxR])>>)

View == <<blk, canon, kp, cur, tags, nf, bad>>

=============================================================================
