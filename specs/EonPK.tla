-------------------------------- MODULE EonPK --------------------------------
(***************************************************************************)
(* C20 -- code-shaped layer: how a keyper hands the eon public keys of     *)
(* finished key generations to its publication mechanism.                  *)
(*                                                                         *)
(* One pure operator per function / statement of the anchored Go code:     *)
(*   keyper/options.go            validateOptions, the two option flags    *)
(*   keyper/smobserver/smstate.go finalizeDKG (success branch:             *)
(*                                InsertEonPublicKey)                      *)
(*   keyper/database/sql/queries/keyper.sql                                *)
(*                                InsertEonPublicKey,                      *)
(*                                GetAndDeleteEonPublicKeys                *)
(*   keyper/eonpkhandler.go       queryAndHandleNewEonPubKeys (the body of *)
(*                                one polling tick), broadcastEonPublicKey *)
(*                                                                         *)
(* Everything is a value of JSON shape.  Eons are named by their position  *)
(* ("id") in EonTab; eon number, activation block and keyper-config index  *)
(* are small abstract integers which the harness maps to 64-bit numbers.   *)
(***************************************************************************)
EXTENDS Naturals, Sequences, FiniteSets

CONSTANTS
    EonTab,    \* sequence of [num, hasRow, c, act]: eon number; is there a row in table eons;
               \* position of its keyper config in CfgTab; activation block stored in the eons row
    CfgTab,    \* sequence of [idx, exists, member]: keyper_config_index; is there a row in
               \* tendermint_batch_config; does its keypers array contain the keyper's address
    LoopMode   \* "fixed": the handler leaves the loop only on an error (repaired tree)
               \* "orig" : the handler returns after the first mechanism call whatever its result
               \*          (tree before the repair /verif/out/fixes/C20-1.diff; kept as a named
               \*          alternative, see EonPKMC!OrigViolates)

EonIds == DOMAIN EonTab
KeyOf(e) == IF e = 1 THEN "k1" ELSE IF e = 2 THEN "k2" ELSE IF e = 3 THEN "k3" ELSE IF e = 4 THEN "k4"
            ELSE IF e = 5 THEN "k5" ELSE IF e = 6 THEN "k6" ELSE IF e = 7 THEN "k7" ELSE IF e = 8 THEN "k8"
            ELSE "k9"

CfgOf(e) == CfgTab[EonTab[e].c]
\* the three joins of GetAndDeleteEonPublicKeys and the membership test of the handler
Joined(e) == EonTab[e].hasRow /\ CfgOf(e).exists
Kind(e) == IF ~Joined(e) THEN "orphan" ELSE IF CfgOf(e).member THEN "member" ELSE "foreign"

----------------------------------------------------------------------------
(* options.go *)

\* options{broadcastEonPubKey, eonPubkeyHandler != nil}.  A keyper core is built from a SEQUENCE of
\* option functions applied to newDefaultOptions(); the publication mode is the resulting SET of
\* enabled mechanisms (both may be enabled at the same time), not an enumeration.
DefaultOptions == [bc |-> TRUE, cb |-> FALSE]             \* newDefaultOptions
ApplyOption(o, opt) ==
    IF opt = "nobc" THEN [o EXCEPT !.bc = FALSE]           \* NoBroadcastEonPublicKey()
    ELSE [o EXCEPT !.cb = TRUE]                            \* WithEonPublicKeyHandler(f), f # nil
RECURSIVE ApplyOptions(_, _)
ApplyOptions(o, seq) == IF seq = <<>> THEN o ELSE ApplyOptions(ApplyOption(o, Head(seq)), Tail(seq))
\* the named option sequences of the universes
OptSeq(name) ==
    CASE name = "Broadcast"   -> <<>>
      [] name = "Callback"    -> <<"nobc", "handler">>     \* all four flavours
      [] name = "CallbackRev" -> <<"handler", "nobc">>
      [] name = "NoBcTwice"   -> <<"nobc", "nobc", "handler">>
      [] name = "Both"        -> <<"handler">>             \* default broadcast plus a handler
      [] name = "BothTwice"   -> <<"handler", "handler">>
      [] OTHER                -> <<"nobc">>                \* "Neither"
\* a mode value: the option sequence's name and the flags it yields
ModeOf(name) == LET m == ApplyOptions(DefaultOptions, OptSeq(name)) IN [bc |-> m.bc, cb |-> m.cb, o |-> name]
\* the flags of a mode value, recomputed from the options that were given
Eff(mode) == ApplyOptions(DefaultOptions, OptSeq(mode.o))
Broadcast == ModeOf("Broadcast")
Callback  == ModeOf("Callback")
Both      == ModeOf("Both")
Neither   == ModeOf("Neither")
\* validateOptions: "no eon public key broadcast nor handler function provided"
ValidateOptions(o) == o.bc \/ o.cb

----------------------------------------------------------------------------
(* rows of outgoing_eon_keys: [e, key] in physical (insertion) order *)

\* keyper.sql InsertEonPublicKey (the primary key on eon is not modelled: a key generation
\* finishes once per eon, dkg_result has the same primary key)
InsertEonPublicKey(rows, key, e) == Append(rows, [e |-> e, key |-> key])

\* smstate.go finalizeDKG, branch ComputeResult() succeeded
FinalizeDKGSuccess(rows, e) == InsertEonPublicKey(rows, KeyOf(e), e)

\* the order in which a statement without ORDER BY sees the rows: ord is a permutation of
\* 1..Len(rows), chosen by the database
Permute(rows, ord) == [j \in 1..Len(rows) |-> rows[ord[j]]]
IsPerm(ord, n) == Len(ord) = n /\ {ord[j] : j \in 1..n} = 1..n

\* keyper.sql GetAndDeleteEonPublicKeys:
\*   WITH t1 AS (DELETE FROM outgoing_eon_keys RETURNING *)
\*   SELECT t1.*, eons.activation_block_number, tbc.keypers, tbc.keyper_config_index
\*   FROM t1 INNER JOIN eons ON .. INNER JOIN tendermint_batch_config tbc ON ..
\* every row is deleted; only the rows that survive both joins are returned
JoinedRow(r) == [e |-> r.e, key |-> r.key, num |-> EonTab[r.e].num, act |-> EonTab[r.e].act,
                 member |-> CfgOf(r.e).member, cfg |-> CfgOf(r.e).idx]
GetAndDeleteEonPublicKeys(rows, ord) ==
    LET seen == SelectSeq(Permute(rows, ord), LAMBDA r : Joined(r.e)) IN
    [rows |-> <<>>, ret |-> [j \in 1..Len(seen) |-> JoinedRow(seen[j])]]

----------------------------------------------------------------------------
(* eonpkhandler.go *)

\* one call of a publication mechanism as the recorder sees it.  m: "bc" = Messaging.SendMessage
\* with the signed p2pmsg.EonPublicKey built by broadcastEonPublicKey, "cb" = the registered
\* EonPublicKeyHandlerFunc.  wf: the message carries the configured instance id and a signature
\* of the keyper's key (always TRUE for "cb").  res: what the mechanism answered.
Call(m, r, res) == [m |-> m, num |-> r.num, act |-> r.act, cfg |-> r.cfg, key |-> r.key, wf |-> TRUE, res |-> res]

\* the mechanism refuses its fail-th call of this tick (0: accepts everything)
MechRes(n, fail) == IF n = fail THEN "err" ELSE "ok"

\* queryAndHandleNewEonPubKeys, the for loop over the returned rows from position i on.
\* The three medley.Int..ToUint64Safe casts cannot fail on values the keyper stores (checked in
\* handleEonStarted) and are not modelled.
RECURSIVE Loop(_, _, _, _, _)
AfterBroadcast(ret, i, mode, fail, calls) ==
    IF mode.cb THEN
        LET c == Call("cb", ret[i], MechRes(Len(calls) + 1, fail)) IN
        IF c.res = "err" THEN [calls |-> Append(calls, c), err |-> "cb"]
        ELSE IF LoopMode = "orig" THEN [calls |-> Append(calls, c), err |-> "nil"]   \* return errors.Wrap(nil, ..)
        ELSE Loop(ret, i + 1, mode, fail, Append(calls, c))
    ELSE Loop(ret, i + 1, mode, fail, calls)

Loop(ret, i, mode, fail, calls) ==
    IF i > Len(ret) THEN [calls |-> calls, err |-> "nil"]
    ELSE IF ~ret[i].member THEN [calls |-> calls, err |-> "noindex"]   \* "own keyper index not found"
    ELSE IF mode.bc THEN
        LET c == Call("bc", ret[i], MechRes(Len(calls) + 1, fail)) IN
        IF c.res = "err" THEN [calls |-> Append(calls, c), err |-> "bc"]
        ELSE IF LoopMode = "orig" THEN [calls |-> Append(calls, c), err |-> "nil"]   \* return errors.Wrap(nil, ..)
        ELSE AfterBroadcast(ret, i, mode, fail, Append(calls, c))
    ELSE AfterBroadcast(ret, i, mode, fail, calls)

\* queryAndHandleNewEonPubKeys = one tick.  q = "sqlerr": the statement fails (nothing deleted).
Tick(rows, ord, q, fail, mode) ==
    IF q # "ok" THEN [rows |-> rows, calls |-> <<>>, err |-> "db"]
    ELSE LET gd == GetAndDeleteEonPublicKeys(rows, ord)
             lp == Loop(gd.ret, 1, mode, fail, <<>>)
         IN [rows |-> gd.rows, calls |-> lp.calls, err |-> lp.err]

\* how many mechanism calls one tick can make at most
MaxCalls(rows, mode) == Len(rows) * ((IF mode.bc THEN 1 ELSE 0) + (IF mode.cb THEN 1 ELSE 0))
=============================================================================
