----------------------------- MODULE Shuttermint -----------------------------
(***************************************************************************)
(* Code-shaped specification of the shuttermint ABCI application           *)
(* (rolling-shutter/app/*.go, keyper/shutterevents/batchconfig.go).        *)
(*                                                                         *)
(* The application is written as PURE OPERATORS on one state record, one   *)
(* operator per ABCI entry point (CheckTx, BeginBlock, DeliverTx, EndBlock,*)
(* Commit) and one per deliver* function of app.go.  Every operator        *)
(* returns the SET of possible results so that the places where the Go     *)
(* code is nondeterministic can be written down as such.  Product          *)
(* constructions (two replicas, twin with an inserted transaction, twin    *)
(* restarted from its save file) are then one-liners, see ShuttermintMC.   *)
(*                                                                         *)
(* All values are JSON-shaped (records, sequences, strings, integers,      *)
(* booleans; finite maps are total functions over Addrs with a "no entry"  *)
(* value) so that the abstract state projected from the real               *)
(* app.ShutterApp by the Go harness (harness/shuttermint/abs.go) can be    *)
(* compared with = after ndJsonDeserialize.                                *)
(*                                                                         *)
(* Map-range sites in app/ and how they are modelled:                      *)
(*   voting.go outcomeIndex  numVotes  : TallyMode "open" = any candidate  *)
(*                                       that reached the quorum (this is  *)
(*                                       what ranging over a Go map gives);*)
(*                                       "closed" = lowest candidate index *)
(*                                       (candidate order = first vote)    *)
(*   voting.go outcomeIndex  v.Votes   : order-insensitive count           *)
(*   powermap.go DiffPowermaps (2x)    : order-insensitive (set of keys)   *)
(*   powermap.go ValidatorUpdates      : sorted afterwards (SortValidators)*)
(*   checktx.go SetMembers             : ranges over a slice               *)
(***************************************************************************)
EXTENDS Integers, Sequences, FiniteSets, SequencesExt, FiniteSetsExt, TLC

CONSTANTS
    Addrs,      \* address tokens (strings), "-" is never one of them
    KeyOrd,     \* sequence of validator-key tokens in the byte order of the concrete keys;
                \* contains NoVal (the placeholder key) at its byte-order position
    Genesis,    \* [keypers, thr, eon0, vals, forkOn, forkH, dev]
    TallyMode   \* "open" | "closed"   (see header)

NoVal   == "none"
NoAddr  == "-"
NoKey   == "-"
AllKeys == ToSet(KeyOrd)

CodeOk    == 0
CodeError == 1
CodeSeen  == 2
MaxTxsPerBlock == 10

----------------------------------------------------------------------------
(* small helpers *)

NoCfg == [keypers |-> <<>>, thr |-> 0, act |-> 0, idx |-> 0]
InSeq(q, x) == \E i \in DOMAIN q : q[i] = x
NoDup(q) == \A i, j \in DOMAIN q : q[i] = q[j] => i = j
SortedSeqOf(S) == SetToSortSeq(S, <)
AddSorted(q, x) == SortedSeqOf(ToSet(q) \cup {x})

Ev(type, a, x, y, z, l) == [type |-> type, a |-> a, x |-> x, y |-> y, z |-> z, l |-> l]
Res(st, code, evs) == [st |-> st, code |-> code, events |-> evs]

(* configurations: "bare" = what a BatchConfig message carries; the app adds two flags *)
Bare(c) == [keypers |-> c.keypers, thr |-> c.thr, act |-> c.act, idx |-> c.idx]
WithFlags(c, st, vu) == [keypers |-> c.keypers, thr |-> c.thr, act |-> c.act, idx |-> c.idx,
                         started |-> st, valupd |-> vu]
IsMember(c, a) == InSeq(c.keypers, a)
LastCfg(s) == s.configs[Len(s.configs)]
IsKeyperAny(s, a) == \E i \in DOMAIN s.configs : IsMember(s.configs[i], a)
AllMembers(s) == UNION {ToSet(s.configs[i].keypers) : i \in DOMAIN s.configs}

CfgEvent(c) == Ev("BatchConfig", NoAddr, c.act, c.thr, c.idx, c.keypers)
EonStartedEvent(eon, c) == Ev("EonStarted", NoAddr, eon, c.act, c.idx, <<>>)

(* BatchConfig.EnsureValid *)
EnsureValid(c) == Len(c.keypers) > 0 /\ c.thr > 0 /\ c.thr <= Len(c.keypers)

(* votes: [Addrs -> 0..n], 0 = no vote, i>0 = index into the candidate sequence *)
NoVotes == [a \in Addrs |-> 0]
VoteCount(votes, c) == Cardinality({a \in Addrs : votes[a] = c})
Reached(votes, ncands, need) == {c \in 1..ncands : VoteCount(votes, c) >= need}
(* Voting.outcomeIndex: the set of indices the Go code may return *)
OutcomeSet(votes, ncands, need) ==
    LET r == Reached(votes, ncands, need) IN
    IF r = {} THEN {0}
    ELSE IF TallyMode = "closed" THEN {Min(r)} ELSE r

(* Voting.SetVote: returns [votes, cands] *)
SetVote(votes, cands, sender, cand) ==
    IF InSeq(cands, cand)
    THEN [votes |-> [votes EXCEPT ![sender] = CHOOSE i \in DOMAIN cands : cands[i] = cand /\
                                               \A j \in 1..(i-1) : cands[j] # cand],
          cands |-> cands]
    ELSE [votes |-> [votes EXCEPT ![sender] = Len(cands) + 1],
          cands |-> Append(cands, cand)]

(* fork: app.IsCheckInUpdateForkActive for a chain id without override *)
ForkActive(s) == s.forkOn /\ s.height + 1 >= s.forkH

----------------------------------------------------------------------------
(* state *)

NewDKG(cfg, eon) ==
    [eon |-> eon, cfg |-> Bare(cfg), votes |-> NoVotes, cands |-> <<>>,
     commits |-> [a \in Addrs |-> FALSE], accs |-> [a \in Addrs |-> FALSE],
     apols |-> [a \in Addrs |-> FALSE],
     evals |-> [a \in Addrs |-> [b \in Addrs |-> FALSE]]]

GenesisCfg == [keypers |-> Genesis.keypers, thr |-> Genesis.thr, act |-> 0, idx |-> 0]

InitState ==
    [configs   |-> <<WithFlags(GenesisCfg, FALSE, FALSE)>>,
     vvotes    |-> NoVotes,
     vcands    |-> <<>>,
     dkgs      |-> <<>>,
     eon       |-> Genesis.eon0,
     ids       |-> [a \in Addrs |-> NoKey],
     seen      |-> [a \in Addrs |-> -1],
     vals      |-> Genesis.vals,
     nonces    |-> [a \in Addrs |-> <<>>],
     height    |-> 0,
     chain     |-> "ok",
     forkOn    |-> Genesis.forkOn,
     forkH     |-> Genesis.forkH,
     dev       |-> Genesis.dev,
     ctMembers |-> [a \in Addrs |-> InSeq(Genesis.keypers, a)],
     ctCounts  |-> [a \in Addrs |-> 0],
     ctNonces  |-> [a \in Addrs |-> <<>>]]

DkgPos(s, eon) == eon - Genesis.eon0
HasDkg(s, eon) == DkgPos(s, eon) \in DOMAIN s.dkgs

(* app.StartDKG *)
StartDKG(s, cfg) ==
    [s EXCEPT !.eon = s.eon + 1, !.dkgs = Append(s.dkgs, NewDKG(cfg, s.eon + 1))]

(* app.updateCheckTxMembers *)
UpdateMembers(s) == [s EXCEPT !.ctMembers = [a \in Addrs |-> a \in AllMembers(s)]]

----------------------------------------------------------------------------
(* transactions: uniform record
     k    kind: "garbage" "wrongchain" "nopayload" "vote" "seen" "checkin" "dkgres"
                "commit" "eval" "acc" "apol"
     s    signer (NoAddr for garbage), n nonce
     bad  "" or the name of a structural defect of the payload
     cfg  bare config (vote), b block number (seen), eon, ok (dkgres),
     key  validator key token (checkin), to  address list (eval/acc/apol),
     g    number of gammas (commit)                                              *)

(* app.checkConfig, as an error flag *)
CheckConfigOk(s, c) ==
    /\ EnsureValid(c)
    /\ c.act >= LastCfg(s).act
    /\ c.idx > LastCfg(s).idx

DeliverBatchConfig(s, tx) ==
    LET c == tx.cfg last == LastCfg(s) IN
    IF tx.bad \in {"badAddrLen", "dupAddr"} THEN {Res(s, CodeError, <<>>)}
    ELSE IF WithFlags(c, FALSE, FALSE) = last THEN {Res(s, CodeSeen, <<>>)}
    ELSE IF ~CheckConfigOk(s, c) THEN {Res(s, CodeError, <<>>)}
    ELSE IF ~IsMember(last, tx.s) THEN {Res(s, CodeError, <<>>)}
    ELSE IF s.vvotes[tx.s] # 0 THEN {Res(s, CodeError, <<>>)}
    ELSE
      LET v  == SetVote(s.vvotes, s.vcands, tx.s, Bare(c))
          s1 == [s EXCEPT !.vvotes = v.votes, !.vcands = v.cands]
      IN { IF o = 0
           THEN Res(s1, CodeOk, <<>>)
           ELSE LET s2 == [s1 EXCEPT !.vvotes = NoVotes, !.vcands = <<>>,
                                     !.configs = Append(s1.configs, WithFlags(c, FALSE, FALSE))]
                    s3 == UpdateMembers(s2)
                    s4 == StartDKG(s3, c)
                IN Res(s4, CodeOk, <<CfgEvent(c), EonStartedEvent(s4.eon, c)>>)
         : o \in OutcomeSet(v.votes, Len(v.cands), last.thr) }

DeliverBlockSeen(s, tx) ==
    (* BlocksSeen[sender] of an absent key reads 0, so a report of block 0 is never stored *)
    { Res(IF tx.b > (IF s.seen[tx.s] = -1 THEN 0 ELSE s.seen[tx.s])
          THEN [s EXCEPT !.seen[tx.s] = tx.b] ELSE s, CodeOk, <<>>) }

DeliverCheckIn(s, tx) ==
    IF ~ForkActive(s) /\ s.ids[tx.s] # NoKey THEN {Res(s, CodeSeen, <<>>)}
    ELSE IF ~IsKeyperAny(s, tx.s) THEN {Res(s, CodeError, <<>>)}
    ELSE IF tx.bad \in {"badValKey", "badEncKey"} THEN {Res(s, CodeError, <<>>)}
    ELSE {Res([s EXCEPT !.ids[tx.s] = tx.key], CodeOk, <<Ev("CheckIn", tx.s, 0, 0, 0, <<>>)>>)}

(* app.maybeStartEon after the vote was added to dkg at position p *)
DeliverDKGResult(s, tx) ==
    IF ~HasDkg(s, tx.eon) THEN {Res(s, CodeError, <<>>)}
    ELSE
      LET p == DkgPos(s, tx.eon) d == s.dkgs[p] IN
      IF ~IsMember(d.cfg, tx.s) THEN {Res(s, CodeError, <<>>)}
      ELSE IF d.votes[tx.s] # 0 THEN {Res(s, CodeSeen, <<>>)}
      ELSE
        LET v  == SetVote(d.votes, d.cands, tx.s, tx.ok)
            s1 == [s EXCEPT !.dkgs[p].votes = v.votes, !.dkgs[p].cands = v.cands]
        IN { IF o = 0 \/ v.cands[o] = TRUE \/ s1.eon > tx.eon
             THEN Res(s1, CodeOk, <<>>)
             ELSE LET s2 == StartDKG(s1, d.cfg)
                  IN Res(s2, CodeOk, <<EonStartedEvent(s2.eon, d.cfg)>>)
           : o \in OutcomeSet(v.votes, Len(v.cands), d.cfg.thr) }

BadList(tx) == tx.bad \in {"badAddrLen", "dupAddr", "lenMismatch"} \/ ~NoDup(tx.to)

DeliverPolyEval(s, tx) ==
    IF BadList(tx) THEN {Res(s, CodeError, <<>>)}
    ELSE IF ~HasDkg(s, tx.eon) THEN {Res(s, CodeError, <<>>)}
    ELSE
      LET p == DkgPos(s, tx.eon) d == s.dkgs[p] IN
      IF ~IsMember(d.cfg, tx.s) THEN {Res(s, CodeError, <<>>)}
      ELSE
        (* the receiver loop returns at the first offending receiver *)
        LET Offence(r) == IF ~IsMember(d.cfg, r) \/ r = tx.s THEN CodeError
                          ELSE IF d.evals[tx.s][r] THEN CodeSeen ELSE CodeOk
            offs == {i \in DOMAIN tx.to : Offence(tx.to[i]) # CodeOk}
        IN IF offs # {} THEN {Res(s, Offence(tx.to[Min(offs)]), <<>>)}
           ELSE {Res([s EXCEPT !.dkgs[p].evals[tx.s] =
                         [b \in Addrs |-> d.evals[tx.s][b] \/ InSeq(tx.to, b)]],
                     CodeOk, <<Ev("PolyEval", tx.s, tx.eon, 0, 0, tx.to)>>)}

DeliverPolyCommitment(s, tx) ==
    IF tx.bad = "badPoint" THEN {Res(s, CodeError, <<>>)}
    ELSE IF ~HasDkg(s, tx.eon) THEN {Res(s, CodeError, <<>>)}
    ELSE
      LET p == DkgPos(s, tx.eon) d == s.dkgs[p] IN
      IF ~IsMember(d.cfg, tx.s) THEN {Res(s, CodeError, <<>>)}
      ELSE IF d.commits[tx.s] THEN {Res(s, CodeSeen, <<>>)}
      ELSE {Res([s EXCEPT !.dkgs[p].commits[tx.s] = TRUE], CodeOk,
                <<Ev("PolyCommitment", tx.s, tx.eon, tx.gm, 0, <<>>)>>)}

DeliverAccusation(s, tx) ==
    IF BadList(tx) THEN {Res(s, CodeError, <<>>)}
    ELSE IF ~HasDkg(s, tx.eon) THEN {Res(s, CodeError, <<>>)}
    ELSE
      LET p == DkgPos(s, tx.eon) d == s.dkgs[p] IN
      IF ~IsMember(d.cfg, tx.s) THEN {Res(s, CodeError, <<>>)}
      ELSE IF \E i \in DOMAIN tx.to : ~IsMember(d.cfg, tx.to[i]) \/ tx.to[i] = tx.s
           THEN {Res(s, CodeError, <<>>)}
      ELSE IF d.accs[tx.s] THEN {Res(s, CodeSeen, <<>>)}
      ELSE {Res([s EXCEPT !.dkgs[p].accs[tx.s] = TRUE], CodeOk,
                <<Ev("Accusation", tx.s, tx.eon, 0, 0, tx.to)>>)}

DeliverApology(s, tx) ==
    IF BadList(tx) THEN {Res(s, CodeError, <<>>)}
    ELSE IF ~HasDkg(s, tx.eon) THEN {Res(s, CodeError, <<>>)}
    ELSE
      LET p == DkgPos(s, tx.eon) d == s.dkgs[p] IN
      IF ~IsMember(d.cfg, tx.s) THEN {Res(s, CodeError, <<>>)}
      ELSE IF \E i \in DOMAIN tx.to : ~IsMember(d.cfg, tx.to[i]) \/ tx.to[i] = tx.s
           THEN {Res(s, CodeError, <<>>)}
      ELSE IF d.apols[tx.s] THEN {Res(s, CodeSeen, <<>>)}
      ELSE {Res([s EXCEPT !.dkgs[p].apols[tx.s] = TRUE], CodeOk,
                <<Ev("Apology", tx.s, tx.eon, 0, 0, tx.to)>>)}

(* app.deliverMessage *)
DeliverMessage(s, tx) ==
    CASE tx.k = "vote"    -> DeliverBatchConfig(s, tx)
      [] tx.k = "seen"    -> DeliverBlockSeen(s, tx)
      [] tx.k = "checkin" -> DeliverCheckIn(s, tx)
      [] tx.k = "dkgres"  -> DeliverDKGResult(s, tx)
      [] tx.k = "eval"    -> DeliverPolyEval(s, tx)
      [] tx.k = "commit"  -> DeliverPolyCommitment(s, tx)
      [] tx.k = "acc"     -> DeliverAccusation(s, tx)
      [] tx.k = "apol"    -> DeliverApology(s, tx)
      [] OTHER            -> {Res(s, CodeError, <<>>)}     \* "nopayload"

NonceUsed(s, a, n) == InSeq(s.nonces[a], n)

(* app.DeliverTx *)
DeliverTx(s, tx) ==
    IF tx.k = "garbage" THEN {Res(s, CodeError, <<>>)}
    (* "forged": the 65 signature bytes of an earlier transaction of tx.s in front of a different
       payload (a config vote). The signature does not cover the payload: the recovered signer is
       some address outside the universe, whose vote is refused
       (deliverBatchConfig answers "already accepted" before it looks at the sender) *)
    ELSE IF tx.k = "forged" THEN
        {Res(s, IF WithFlags(tx.cfg, FALSE, FALSE) = LastCfg(s) THEN CodeSeen ELSE CodeError, <<>>)}
    ELSE IF tx.k = "wrongchain" THEN {Res(s, CodeError, <<>>)}
    ELSE IF NonceUsed(s, tx.s, tx.n) THEN {Res(s, CodeError, <<>>)}
    ELSE DeliverMessage([s EXCEPT !.nonces[tx.s] = AddSorted(@, tx.n)], tx)

(* app.CheckTx; only the mempool part of the state changes *)
CheckTx(s, tx) ==
    IF tx.k \in {"garbage", "wrongchain", "forged"} THEN Res(s, 1, <<>>)
    ELSE IF NonceUsed(s, tx.s, tx.n) THEN Res(s, 1, <<>>)
    ELSE IF ~s.ctMembers[tx.s] THEN Res(s, 1, <<>>)
    ELSE IF s.ctCounts[tx.s] >= MaxTxsPerBlock THEN Res(s, 1, <<>>)
    ELSE IF InSeq(s.ctNonces[tx.s], tx.n) THEN Res(s, 1, <<>>)
    ELSE Res([s EXCEPT !.ctCounts[tx.s] = @ + 1, !.ctNonces[tx.s] = AddSorted(@, tx.n)], 0, <<>>)

(* app.BeginBlock *)
BeginBlock(s, h) == IF h = 1 THEN <<CfgEvent(s.configs[1])>> ELSE <<>>

----------------------------------------------------------------------------
(* EndBlock *)

CheckedIn(s, c) == Cardinality({i \in DOMAIN c.keypers : s.ids[c.keypers[i]] # NoKey})

(* numRequiredTransitionValidators *)
RequiredCheckIns(c) ==
    LET n == Len(c.keypers) d == n - ((n + 2) \div 3) + 1 IN
    IF n = 0 THEN 0 ELSE IF c.thr >= d THEN c.thr ELSE d

SeenVotes(s, allow, act) ==
    Cardinality({i \in DOMAIN allow.keypers : s.seen[allow.keypers[i]] >= act /\ s.seen[allow.keypers[i]] # -1})

(* the for-loop of EndBlock over app.Configs; the flags of config i only depend on
   configs[i-1].keypers/thr (never on flags), so the loop is a pointwise map *)
EndBlockConfigs(s) ==
    [i \in DOMAIN s.configs |->
        LET c == s.configs[i]
            allow == s.configs[IF i > 1 THEN i - 1 ELSE 1]
            st == c.started \/ SeenVotes(s, allow, c.act) >= allow.thr
            vu == c.valupd \/ (st /\ CheckedIn(s, c) >= RequiredCheckIns(c))
        IN WithFlags(c, st, vu)]

StartedEvents(old, new) ==
    LET idxs == {i \in DOMAIN new : new[i].started /\ ~old[i].started}
        q == SortedSeqOf(idxs)
    IN [j \in DOMAIN q |-> Ev("BatchConfigStarted", NoAddr, new[q[j]].idx, 0, 0, <<>>)]

(* app.makePowermap *)
MakePowermap(s, c) ==
    [k \in AllKeys |->
        10 * Cardinality({i \in DOMAIN c.keypers :
                            IF s.ids[c.keypers[i]] = NoKey THEN k = NoVal ELSE k = s.ids[c.keypers[i]]})]

(* app.CurrentValidators *)
CurrentValidators(s) ==
    LET ok == {i \in DOMAIN s.configs : s.configs[i].started /\ s.configs[i].valupd} IN
    IF ok = {} THEN s.vals ELSE MakePowermap(s, s.configs[Max(ok)])

(* DiffPowermaps(old, new).ValidatorUpdates(): sorted by key bytes *)
Updates(old, new) ==
    LET changed == {i \in DOMAIN KeyOrd : old[KeyOrd[i]] # new[KeyOrd[i]]}
        q == SortedSeqOf(changed)
    IN [j \in DOMAIN q |-> [key |-> KeyOrd[q[j]], power |-> new[KeyOrd[q[j]]]]]

EndBlock(s, h) ==
    LET cfgs == EndBlockConfigs(s)
        s1 == [s EXCEPT !.configs = cfgs]
        nv == CurrentValidators(s1)
    IN [st |-> [s1 EXCEPT !.vals = nv, !.height = h],
        events |-> StartedEvents(s.configs, cfgs),
        (* DevMode: the application still tracks its validator set but hands no update to Tendermint *)
        updates |-> IF s.dev THEN <<>> ELSE Updates(s.vals, nv)]

(* app.Commit: CheckTxState.Reset keeps the members *)
Commit(s) == [s EXCEPT !.ctCounts = [a \in Addrs |-> 0], !.ctNonces = [a \in Addrs |-> <<>>]]

=============================================================================
