------------------------------- MODULE Gossip -------------------------------
(***************************************************************************)
(* C03: N keyper nodes of one eon (threshold T, successful DKG) exchange   *)
(* DecryptionKeyShares / DecryptionKeys messages over gossip.              *)
(*                                                                         *)
(* Code-shaped layer, one operator per function / critical section of      *)
(*   keyper/epochkghandler/service.go      KeyShareHandler.handleEvent     *)
(*   keyper/epochkghandler/sendkeyshare.go ConstructDecryptionKeyShares    *)
(*   keyper/epochkghandler/keyshare.go     DecryptionKeyShareHandler       *)
(*   keyper/epochkghandler/key.go          DecryptionKeyHandler            *)
(*   keyperimpl/gnosis/{handlers,messagingmiddleware}.go                   *)
(*   keyperimpl/shutterservice/{handlers,messagingmiddleware}.go           *)
(*   gnosisaccessnode/decryptionkeyshandler.go                             *)
(*   p2p/messaging.go  (validators combined per topic, handlers in         *)
(*                      registration order, outputs published)             *)
(*   p2p/topic.go      (a node does not handle what it published itself;   *)
(*                      a local publish passes the node's own validators)  *)
(*                                                                         *)
(* Registration order (keyperimpl/*/keyper.go, keyper/keyper.go): the      *)
(* flavour handlers are registered on the RAW messaging (their outputs are *)
(* not intercepted), then the core handlers through the middleware (their  *)
(* outputs pass interceptMessage).                                         *)
(*                                                                         *)
(* ROUNDS.  Rounds is a sequence of identity lists: round r is one         *)
(* decryption trigger with the identity list Rounds[r] (gnosis: one slot;  *)
(* service: one block's trigger).  The lists of different rounds may       *)
(* OVERLAP ({A} then {A,B}): shares and keys of an identity that is        *)
(* already known meet the ON CONFLICT DO NOTHING / "all keys exist" paths. *)
(* Signatures are per round (gnosis: per slot; service: per identities     *)
(* hash); the gnosis current trigger is the LAST round the node was        *)
(* triggered for (current_decryption_trigger has one row per eon).         *)
(*                                                                         *)
(* Cryptography is abstracted: every share / signature an honest node      *)
(* makes is genuine; T distinct shares interpolate to the key ("good").    *)
(* The code side never assumes this: real BLS shares, real ECDSA           *)
(* signatures, key judged by byte equality with the dealer's key and by    *)
(* trial decryption.                                                       *)
(***************************************************************************)
EXTENDS Integers, Sequences, FiniteSets, SequencesExt, FiniteSetsExt, Bags, TLC

CONSTANTS N, T, Rounds, Flavour     \* Rounds: sequence of identity lists (each ordered as on the wire)

Nodes == 0..(N - 1)
RoundIdx == DOMAIN Rounds
IdsOf(r) == {Rounds[r][k] : k \in DOMAIN Rounds[r]}
IdSet == UNION {IdsOf(r) : r \in RoundIdx}

SortedSeq(S) == SetToSortSeq(S, <)
(* SELECT .. ORDER BY keyper_index ASC LIMIT T *)
FirstT(S) == LET q == SortedSeq(S) IN IF Len(q) <= T THEN q ELSE SubSeq(q, 1, T)

(* r = the round whose identity list the message carries; x = the round the flavour extra was made
   for (gnosis: slot of the extra; service: = r, the signatures are keyed by the identities hash;
   0 = no extra) *)
SharesMsg(k, r) == [t |-> "shares", from |-> k, r |-> r, x |-> IF Flavour = "core" THEN 0 ELSE r, signers |-> <<>>]
KeysMsg(k, r, x, sg) == [t |-> "keys", from |-> k, r |-> r, x |-> x, signers |-> sg]

(* ptr: gnosis tx pointer as offset from the pointer of the triggers, -1 = never set by a keys message *)
NodeInit == [shares |-> [id \in IdSet |-> {}], keys |-> [id \in IdSet |-> "none"],
             sigs |-> [r \in RoundIdx |-> {}], cur |-> 0, ptr |-> -1]

----------------------------------------------------------------------------
(* Validators.  The fields an honest producer fills are genuine; what is modelled is the
   shape test each validator applies.                                                    *)

(* core: DecryptionKeyShareHandler.ValidateMessage / checkKeyShares *)
CoreValidateShares(nd, m) == "accept"
(* core: DecryptionKeyHandler.ValidateMessage / checkKeysErrors: a key equal to the stored one is
   skipped, any other one is verified against the eon public key *)
CoreValidateKeys(nd, m) == "accept"

(* flavour: DecryptionKeySharesHandler.ValidateMessage: extra present, index in range, signature
   of the sender over (instance, eon, [slot, txpointer,] identities OF THE MESSAGE): an extra made
   for another round does not verify *)
FlavourValidateShares(nd, m) == IF m.x = m.r THEN "accept" ELSE "reject"
(* flavour: DecryptionKeysHandler.ValidateMessage / ValidateDecryptionKeysSignatures *)
StrictlyIncreasing(q) == \A a, b \in DOMAIN q : a < b => q[a] < q[b]
FlavourValidateKeys(nd, m) ==
    CASE Flavour = "core" -> "accept"
      [] Flavour = "gnosis" ->
            IF Len(m.signers) # T THEN "reject"
            ELSE IF ~StrictlyIncreasing(m.signers) THEN "reject"
            ELSE IF \E a \in DOMAIN m.signers : m.signers[a] \notin Nodes THEN "reject"
            ELSE IF m.x # m.r THEN "reject"                     \* signatures of another slot / identity list
            ELSE "accept"
      [] Flavour = "service" ->
            IF Len(m.signers) = 0 THEN "accept"                \* "Allow for empty signatures"
            ELSE IF Len(m.signers) # T THEN "reject"
            ELSE IF ~StrictlyIncreasing(m.signers) THEN "reject"
            ELSE IF \E a \in DOMAIN m.signers : m.signers[a] \notin Nodes THEN "reject"
            ELSE IF m.x # m.r THEN "reject"
            ELSE "accept"

(* ValidatorRegistry.GetCombinedValidator: all registered validators of the topic, flavour first *)
Combine(a, b) == IF a = "reject" \/ b = "reject" THEN "reject"
                 ELSE IF a = "ignore" \/ b = "ignore" THEN "ignore" ELSE "accept"
Validate(nd, m) ==
    IF m.t = "shares"
    THEN Combine(IF Flavour = "core" THEN "accept" ELSE FlavourValidateShares(nd, m), CoreValidateShares(nd, m))
    ELSE Combine(FlavourValidateKeys(nd, m), CoreValidateKeys(nd, m))

(* gnosisaccessnode DecryptionKeysHandler.ValidateMessage: common fields (keys verify against the
   eon key), ValidateDecryptionKeysBasic (gnosis extra present), ValidateDecryptionKeysSignatures *)
ANValidate(m) ==
    IF Flavour # "gnosis" THEN "-"
    ELSE IF Len(m.signers) # T THEN "reject"
    ELSE IF ~StrictlyIncreasing(m.signers) THEN "reject"
    ELSE IF \E a \in DOMAIN m.signers : m.signers[a] \notin Nodes THEN "reject"
    ELSE IF m.x # m.r THEN "reject"
    ELSE "accept"

----------------------------------------------------------------------------
(* Middleware (interceptMessage).  Returns [nd, out] with out a sequence of 0..1 messages. *)

(* interceptDecryptionKeyShares: sign, store own signature, attach the extra.  gnosis: the message is
   dropped unless the current trigger is the one the message answers (identities hash) *)
InterceptShares(nd, j, m) ==
    CASE Flavour = "core" -> [nd |-> nd, out |-> <<m>>]
      [] Flavour = "gnosis" ->
            IF nd.cur # m.r THEN [nd |-> nd, out |-> <<>>]     \* unknown / overridden decryption trigger: dropped
            ELSE [nd |-> [nd EXCEPT !.sigs[m.r] = @ \cup {j}], out |-> <<m>>]
      [] Flavour = "service" -> [nd |-> [nd EXCEPT !.sigs[m.r] = @ \cup {j}], out |-> <<m>>]

(* interceptDecryptionKeys for a keys message WITHOUT extra (made by the core handler for round r).
   gnosis takes slot, tx pointer AND signatures from the CURRENT trigger; service selects the
   signatures by the identities hash of the message.
   GnosisKeysIntercept = "checked" (after fix /verif/out/fixes/C03-1.diff): a keys message whose
   identity list is not the current trigger's is dropped, as interceptDecryptionKeyShares does.
   "unchecked" is the original code: late shares of round r that complete the threshold after the
   node was triggered for the next round produced KeysMsg(j, r, cur, signatures of cur), which no
   validator accepts (StepOK fails: TLC counterexample N=2, T=2, rounds {A},{A,B}, 6 steps), and
   moved the tx pointer by Len(Rounds[r]) - 1. *)
GnosisKeysIntercept == "checked"
InterceptKeys(nd, j, r) ==
    CASE Flavour = "core" -> [nd |-> nd, out |-> <<KeysMsg(j, r, 0, <<>>)>>]
      [] Flavour = "gnosis" ->
            IF nd.cur = 0 THEN [nd |-> nd, out |-> <<>>]       \* no current trigger: dropped
            ELSE IF GnosisKeysIntercept = "checked" /\ nd.cur # r THEN [nd |-> nd, out |-> <<>>]
            ELSE IF Cardinality(nd.sigs[nd.cur]) < T THEN [nd |-> nd, out |-> <<>>]
            ELSE [nd |-> [nd EXCEPT !.ptr = Len(Rounds[r]) - 1],                     \* advanceTxPointer
                  out |-> <<KeysMsg(j, r, nd.cur, FirstT(nd.sigs[nd.cur]))>>]
      [] Flavour = "service" ->
            IF Cardinality(nd.sigs[r]) < T THEN [nd |-> nd, out |-> <<>>]
            ELSE [nd |-> nd, out |-> <<KeysMsg(j, r, r, FirstT(nd.sigs[r]))>>]

----------------------------------------------------------------------------
(* Handlers.  Each returns [nd, out]. *)

(* flavour DecryptionKeySharesHandler.HandleMessage (NOT intercepted): store the sender's
   signature; with T signatures and all keys of the message known, emit a keys message *)
FlavourHandleShares(nd, j, m) ==
    IF Flavour = "core" THEN [nd |-> nd, out |-> <<>>]
    ELSE LET nd1 == [nd EXCEPT !.sigs[m.r] = @ \cup {m.from}] IN
         IF Cardinality(nd1.sigs[m.r]) >= T /\ \A id \in IdsOf(m.r) : nd1.keys[id] # "none"
         THEN [nd |-> nd1, out |-> <<KeysMsg(j, m.r, m.r, FirstT(nd1.sigs[m.r]))>>]
         ELSE [nd |-> nd1, out |-> <<>>]

(* InsertDecryptionKeysMsg: one INSERT .. ON CONFLICT DO NOTHING per key of the list, ALL of them *)
InsertKeysOf(keys, r) == [id \in IdSet |-> IF id \in IdsOf(r) /\ keys[id] = "none" THEN "good" ELSE keys[id]]

(* core DecryptionKeyShareHandler.HandleMessage, wrapped by the middleware; the set abstraction
   of EpochKGPipe!HandleMsg for valid shares *)
CoreHandleShares(nd, j, m) ==
    LET nd1 == [nd EXCEPT !.shares = [id \in IdSet |-> IF id \in IdsOf(m.r) THEN @[id] \cup {m.from} ELSE @[id]]] IN
    IF \A id \in IdsOf(m.r) : nd.keys[id] # "none" THEN [nd |-> nd1, out |-> <<>>]              \* allKeysExist
    ELSE IF \E id \in IdsOf(m.r) : Cardinality(nd1.shares[id]) < T THEN [nd |-> nd1, out |-> <<>>]
    ELSE InterceptKeys([nd1 EXCEPT !.keys = InsertKeysOf(@, m.r)], j, m.r)

(* flavour DecryptionKeysHandler.HandleMessage: tx pointer (gnosis), signatures of the message *)
FlavourHandleKeys(nd, j, m) ==
    CASE Flavour = "core" -> [nd |-> nd, out |-> <<>>]
      [] Flavour = "gnosis" ->
            [nd |-> [nd EXCEPT !.ptr = Len(Rounds[m.r]) - 1,
                               !.sigs[m.x] = @ \cup {m.signers[a] : a \in DOMAIN m.signers}], out |-> <<>>]
      [] Flavour = "service" ->
            [nd |-> [nd EXCEPT !.sigs[m.r] = @ \cup {m.signers[a] : a \in DOMAIN m.signers}], out |-> <<>>]   \* keyed by the hash of the keys' identities

(* core DecryptionKeyHandler.HandleMessage: InsertDecryptionKeysMsg *)
CoreHandleKeys(nd, j, m) == [nd |-> [nd EXCEPT !.keys = InsertKeysOf(@, m.r)], out |-> <<>>]

(* P2PMessaging.Handle: the handlers of the message type in registration order *)
HandleAll(nd, j, m) ==
    IF m.t = "shares"
    THEN LET a == FlavourHandleShares(nd, j, m)
             b == CoreHandleShares(a.nd, j, m) IN [nd |-> b.nd, out |-> a.out \o b.out]
    ELSE LET a == FlavourHandleKeys(nd, j, m)
             b == CoreHandleKeys(a.nd, j, m) IN [nd |-> b.nd, out |-> a.out \o b.out]

(* KeyShareHandler.handleEvent for the trigger of round r: ConstructDecryptionKeyShares (own shares
   stored unless ALL of them exist already) and SendMessage through the middleware.  For gnosis the
   keyper overwrites current_decryption_trigger before it emits the trigger (triggerDecryption). *)
TriggerNode(nd, i, r) ==
    LET nd0 == IF Flavour = "gnosis" THEN [nd EXCEPT !.cur = r] ELSE nd IN
    IF \A id \in IdsOf(r) : i \in nd0.shares[id]
    THEN [nd |-> nd0, out |-> <<>>, err |-> "sharesexist"]   \* ErrSharesAlreadySent; the event's result carries the error
                                                              \* (errors.Is(err, ErrIgnoreDecryptionRequest) does not match the wrapped error)
    ELSE [err |-> ""] @@ InterceptShares([nd0 EXCEPT !.shares = [id \in IdSet |-> IF id \in IdsOf(r) THEN @[id] \cup {i} ELSE @[id]]],
                         i, SharesMsg(i, r))

----------------------------------------------------------------------------
(* Publishing: the node's own combined validator first (libp2p validates local publishes), then
   one copy per other node.  Returns the packets and what was observed per produced message. *)
RECURSIVE Publish(_, _, _, _)
Publish(nd, i, out, k) ==
    IF k > Len(out) THEN [pk |-> EmptyBag, prod |-> <<>>]
    ELSE LET m == out[k]
             own == Validate(nd, m)
             rest == Publish(nd, i, out, k + 1)
             pk == IF own = "accept" THEN SetToBag({[m |-> m, d |-> j] : j \in Nodes \ {i}}) ELSE EmptyBag IN
         [pk |-> pk (+) rest.pk,
          prod |-> <<[m |-> m, own |-> own, an |-> IF m.t = "keys" THEN ANValidate(m) ELSE "-"]>> \o rest.prod]

----------------------------------------------------------------------------
(* Property layer, over observed data only.
   obs = [verdict, prod]: the receiver's verdict of the delivered message ("-" for a trigger) and
   the messages produced in the step with the producer's own verdict and the access node's.     *)

(* every message an honest node produced is accepted by every honest member, by its producer's
   own validators and (keys, gnosis) by the access node *)
P_Accepted(obs) ==
    /\ obs.verdict \in {"-", "accept"}
    /\ \A k \in DOMAIN obs.prod : obs.prod[k].own = "accept" /\ obs.prod[k].an \in {"-", "accept"}
(* no node ever stores a wrong key *)
P_KeysGood(tabs) == \A i \in Nodes : \A id \in IdSet : tabs[i].keys[id] \in {"none", "good"}
(* at quiescence (all planned triggers done, nothing in flight) every node holds the key of
   every identity of every round (each round is triggered at >= T nodes) *)
P_AllHaveKeys(tabs) == \A i \in Nodes : \A id \in IdSet : tabs[i].keys[id] = "good"
=============================================================================
