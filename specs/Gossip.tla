------------------------------- MODULE Gossip -------------------------------
(***************************************************************************)
(* C03: N keyper nodes of one eon (threshold T, successful DKG) exchange   *)
(* DecryptionKeyShares / DecryptionKeys messages over gossip.              *)
(*                                                                         *)
(* Code-shaped layer, one operator per function / critical section of      *)
(*   keyper/epochkghandler/service.go      KeyShareHandler.handleEvent     *)
(*   keyper/epochkghandler/sendkeyshare.go ConstructDecryptionKeyShares    *)
(*   keyper/epochkghandler/keyshare.go     DecryptionKeyShareHandler       *)
(*   keyper/epochkghandler/key.go          DecryptionKeyHandler            *)
(*   keyperimpl/gnosis/{handlers,messagingmiddleware}.go                   *)
(*   keyperimpl/shutterservice/{handlers,messagingmiddleware}.go           *)
(*   gnosisaccessnode/decryptionkeyshandler.go                             *)
(*   p2p/messaging.go  (validators combined per topic, handlers in         *)
(*                      registration order, outputs published)             *)
(*   p2p/topic.go      (a node does not handle what it published itself;   *)
(*                      a local publish passes the node's own validators)  *)
(*                                                                         *)
(* Registration order (keyperimpl/*/keyper.go, keyper/keyper.go): the      *)
(* flavour handlers are registered on the RAW messaging (their outputs are *)
(* not intercepted), then the core handlers through the middleware (their  *)
(* outputs pass interceptMessage).                                         *)
(*                                                                         *)
(* Cryptography is abstracted: every share / signature an honest node      *)
(* makes is genuine; T distinct shares interpolate to the key ("good").    *)
(* The code side never assumes this: real BLS shares, real ECDSA           *)
(* signatures, key judged by byte equality with the dealer's key and by    *)
(* trial decryption.                                                       *)
(***************************************************************************)
EXTENDS Integers, Sequences, FiniteSets, SequencesExt, FiniteSetsExt, Bags, TLC

CONSTANTS N, T, Ids, Flavour     \* Ids: sequence of identity names (ordered as on the wire)

Nodes == 0..(N - 1)
IdSet == {Ids[k] : k \in DOMAIN Ids}

SortedSeq(S) == SetToSortSeq(S, <)
(* SELECT .. ORDER BY keyper_index ASC LIMIT T *)
FirstT(S) == LET q == SortedSeq(S) IN IF Len(q) <= T THEN q ELSE SubSeq(q, 1, T)

SharesMsg(k) == [t |-> "shares", from |-> k, signers |-> <<>>]
KeysMsg(k, sg) == [t |-> "keys", from |-> k, signers |-> sg]

NodeInit == [shares |-> [id \in IdSet |-> {}], keys |-> [id \in IdSet |-> "none"],
             sigs |-> {}, cur |-> FALSE, ptr |-> "init"]

----------------------------------------------------------------------------
(* Validators.  The fields an honest producer fills are genuine; what is modelled is the
   shape test each validator applies.                                                    *)

(* core: DecryptionKeyShareHandler.ValidateMessage / checkKeyShares *)
CoreValidateShares(nd, m) == "accept"
(* core: DecryptionKeyHandler.ValidateMessage / checkKeysErrors: a key equal to the stored one is
   skipped, any other one is verified against the eon public key *)
CoreValidateKeys(nd, m) == "accept"

(* flavour: DecryptionKeySharesHandler.ValidateMessage: extra present, index in range, signature
   of the sender over (instance, eon, [slot, txpointer,] identities) *)
FlavourValidateShares(nd, m) == "accept"
(* flavour: DecryptionKeysHandler.ValidateMessage / ValidateDecryptionKeysSignatures *)
StrictlyIncreasing(q) == \A a, b \in DOMAIN q : a < b => q[a] < q[b]
FlavourValidateKeys(nd, m) ==
    CASE Flavour = "core" -> "accept"
      [] Flavour = "gnosis" ->
            IF Len(m.signers) # T THEN "reject"
            ELSE IF ~StrictlyIncreasing(m.signers) THEN "reject"
            ELSE IF \E a \in DOMAIN m.signers : m.signers[a] \notin Nodes THEN "reject"
            ELSE "accept"
      [] Flavour = "service" ->
            IF Len(m.signers) = 0 THEN "accept"                \* "Allow for empty signatures"
            ELSE IF Len(m.signers) # T THEN "reject"
            ELSE IF ~StrictlyIncreasing(m.signers) THEN "reject"
            ELSE IF \E a \in DOMAIN m.signers : m.signers[a] \notin Nodes THEN "reject"
            ELSE "accept"

(* ValidatorRegistry.GetCombinedValidator: all registered validators of the topic, flavour first *)
Combine(a, b) == IF a = "reject" \/ b = "reject" THEN "reject"
                 ELSE IF a = "ignore" \/ b = "ignore" THEN "ignore" ELSE "accept"
Validate(nd, m) ==
    IF m.t = "shares"
    THEN Combine(IF Flavour = "core" THEN "accept" ELSE FlavourValidateShares(nd, m), CoreValidateShares(nd, m))
    ELSE Combine(FlavourValidateKeys(nd, m), CoreValidateKeys(nd, m))

(* gnosisaccessnode DecryptionKeysHandler.ValidateMessage: common fields (keys verify against the
   eon key), ValidateDecryptionKeysBasic (gnosis extra present), ValidateDecryptionKeysSignatures *)
ANValidate(m) ==
    IF Flavour # "gnosis" THEN "-"
    ELSE IF Len(m.signers) # T THEN "reject"
    ELSE IF ~StrictlyIncreasing(m.signers) THEN "reject"
    ELSE IF \E a \in DOMAIN m.signers : m.signers[a] \notin Nodes THEN "reject"
    ELSE "accept"

----------------------------------------------------------------------------
(* Middleware (interceptMessage).  Returns [nd, out] with out a sequence of 0..1 messages. *)

(* interceptDecryptionKeyShares: sign, store own signature, attach the extra *)
InterceptShares(nd, j, m) ==
    CASE Flavour = "core" -> [nd |-> nd, out |-> <<m>>]
      [] Flavour = "gnosis" ->
            IF ~nd.cur THEN [nd |-> nd, out |-> <<>>]          \* unknown decryption trigger: dropped
            ELSE [nd |-> [nd EXCEPT !.sigs = @ \cup {j}], out |-> <<m>>]
      [] Flavour = "service" -> [nd |-> [nd EXCEPT !.sigs = @ \cup {j}], out |-> <<m>>]

(* interceptDecryptionKeys for a keys message WITHOUT extra (made by the core handler) *)
InterceptKeys(nd, j, m) ==
    CASE Flavour = "core" -> [nd |-> nd, out |-> <<m>>]
      [] Flavour = "gnosis" ->
            IF ~nd.cur THEN [nd |-> nd, out |-> <<>>]          \* no current trigger: dropped
            ELSE IF Cardinality(nd.sigs) < T THEN [nd |-> nd, out |-> <<>>]
            ELSE [nd |-> [nd EXCEPT !.ptr = "adv"], out |-> <<KeysMsg(j, FirstT(nd.sigs))>>]   \* advanceTxPointer
      [] Flavour = "service" ->
            IF Cardinality(nd.sigs) < T THEN [nd |-> nd, out |-> <<>>]
            ELSE [nd |-> nd, out |-> <<KeysMsg(j, FirstT(nd.sigs))>>]

----------------------------------------------------------------------------
(* Handlers.  Each returns [nd, out]. *)

(* flavour DecryptionKeySharesHandler.HandleMessage (NOT intercepted): store the sender's
   signature; with T signatures and all keys of the message known, emit a keys message *)
FlavourHandleShares(nd, j, m) ==
    IF Flavour = "core" THEN [nd |-> nd, out |-> <<>>]
    ELSE LET nd1 == [nd EXCEPT !.sigs = @ \cup {m.from}] IN
         IF Cardinality(nd1.sigs) >= T /\ \A id \in IdSet : nd1.keys[id] # "none"
         THEN [nd |-> nd1, out |-> <<KeysMsg(j, FirstT(nd1.sigs))>>]
         ELSE [nd |-> nd1, out |-> <<>>]

(* core DecryptionKeyShareHandler.HandleMessage, wrapped by the middleware; the set abstraction
   of EpochKGPipe!HandleMsg for valid shares *)
CoreHandleShares(nd, j, m) ==
    LET nd1 == [nd EXCEPT !.shares = [id \in IdSet |-> @[id] \cup {m.from}]] IN
    IF \A id \in IdSet : nd.keys[id] # "none" THEN [nd |-> nd1, out |-> <<>>]              \* allKeysExist
    ELSE IF \E id \in IdSet : Cardinality(nd1.shares[id]) < T THEN [nd |-> nd1, out |-> <<>>]
    ELSE LET nd2 == [nd1 EXCEPT !.keys = [id \in IdSet |-> IF @[id] = "none" THEN "good" ELSE @[id]]] IN
         InterceptKeys(nd2, j, KeysMsg(j, <<>>))

(* flavour DecryptionKeysHandler.HandleMessage: tx pointer (gnosis), signatures of the message *)
FlavourHandleKeys(nd, j, m) ==
    CASE Flavour = "core" -> [nd |-> nd, out |-> <<>>]
      [] Flavour = "gnosis" ->
            [nd |-> [nd EXCEPT !.ptr = "adv", !.sigs = @ \cup {m.signers[a] : a \in DOMAIN m.signers}], out |-> <<>>]
      [] Flavour = "service" ->
            [nd |-> [nd EXCEPT !.sigs = @ \cup {m.signers[a] : a \in DOMAIN m.signers}], out |-> <<>>]

(* core DecryptionKeyHandler.HandleMessage: INSERT .. ON CONFLICT DO NOTHING per key *)
CoreHandleKeys(nd, j, m) ==
    [nd |-> [nd EXCEPT !.keys = [id \in IdSet |-> IF @[id] = "none" THEN "good" ELSE @[id]]], out |-> <<>>]

(* P2PMessaging.Handle: the handlers of the message type in registration order *)
HandleAll(nd, j, m) ==
    IF m.t = "shares"
    THEN LET a == FlavourHandleShares(nd, j, m)
             b == CoreHandleShares(a.nd, j, m) IN [nd |-> b.nd, out |-> a.out \o b.out]
    ELSE LET a == FlavourHandleKeys(nd, j, m)
             b == CoreHandleKeys(a.nd, j, m) IN [nd |-> b.nd, out |-> a.out \o b.out]

(* KeyShareHandler.handleEvent for the trigger of this eon: ConstructDecryptionKeyShares (own
   shares stored unless all exist already) and SendMessage through the middleware.  For gnosis
   the keyper sets current_decryption_trigger before it emits the trigger (triggerDecryption). *)
TriggerNode(nd, i) ==
    LET nd0 == IF Flavour = "gnosis" THEN [nd EXCEPT !.cur = TRUE] ELSE nd IN
    IF \A id \in IdSet : i \in nd0.shares[id] THEN [nd |-> nd0, out |-> <<>>]               \* ErrSharesAlreadySent
    ELSE InterceptShares([nd0 EXCEPT !.shares = [id \in IdSet |-> @[id] \cup {i}]], i, SharesMsg(i))

----------------------------------------------------------------------------
(* Publishing: the node's own combined validator first (libp2p validates local publishes), then
   one copy per other node.  Returns the packets and what was observed per produced message. *)
RECURSIVE Publish(_, _, _, _)
Publish(nd, i, out, k) ==
    IF k > Len(out) THEN [pk |-> EmptyBag, prod |-> <<>>]
    ELSE LET m == out[k]
             own == Validate(nd, m)
             rest == Publish(nd, i, out, k + 1)
             pk == IF own = "accept" THEN SetToBag({[m |-> m, d |-> j] : j \in Nodes \ {i}}) ELSE EmptyBag IN
         [pk |-> pk (+) rest.pk,
          prod |-> <<[m |-> m, own |-> own, an |-> IF m.t = "keys" THEN ANValidate(m) ELSE "-"]>> \o rest.prod]

----------------------------------------------------------------------------
(* Property layer, over observed data only.
   obs = [verdict, prod]: the receiver's verdict of the delivered message ("-" for a trigger) and
   the messages produced in the step with the producer's own verdict and the access node's.     *)

(* every message an honest node produced is accepted by every honest member, by its producer's
   own validators and (keys, gnosis) by the access node *)
P_Accepted(obs) ==
    /\ obs.verdict \in {"-", "accept"}
    /\ \A k \in DOMAIN obs.prod : obs.prod[k].own = "accept" /\ obs.prod[k].an \in {"-", "accept"}
(* no node ever stores a wrong key *)
P_KeysGood(tabs) == \A i \in Nodes : \A id \in IdSet : tabs[i].keys[id] \in {"none", "good"}
(* at quiescence (all planned triggers done, nothing in flight) every node holds the key of
   every identity *)
P_AllHaveKeys(tabs) == \A i \in Nodes : \A id \in IdSet : tabs[i].keys[id] = "good"
=============================================================================
