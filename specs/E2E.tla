-------------------------------- MODULE E2E --------------------------------
(***************************************************************************)
(* Composition of two specification families into one end-to-end           *)
(* behaviour                                                               *)
(*                                                                         *)
(*   keyper set accepted -> distributed key generation over shuttermint    *)
(*                       -> decryption keys released over gossip           *)
(*                                                                         *)
(* Phase 1 is the DKG module (EXTENDS DKGProps: state record, ApplyOp,     *)
(* OpEnabled, SpecFin and the C07 monitors are used as they are).  Its     *)
(* behaviours are restricted to a small set of STRATEGIES: every honest    *)
(* message is sent in the first block of its phase ("everything in         *)
(* phase"), except for the strategy's deviation: a script of Byzantine     *)
(* messages (block, op) and/or a set of honest messages that are held back *)
(* until the first block after their phase.  A strategy only restricts     *)
(* which ops of DKG.tla are taken, never what they do.                     *)
(*                                                                         *)
(* Phase 2 is the Gossip module, core flavour (INSTANCE Gossip: Trigger-   *)
(* Node, Validate, HandleAll, Publish are used as they are), started from  *)
(* the HANDOVER of phase 1:                                                *)
(*   hv.succ   the gossip nodes (keyper index = DKG keyper - 1) whose      *)
(*             dkg_result row says success                                 *)
(*   hv.mat[j] the key material node j holds: the set of dealers whose     *)
(*             polynomials were summed (eon public key, public key share   *)
(*             vector and secret share are functions of it)                *)
(* and wrapped by what the real code does with its dkg_result row:         *)
(*   keyper/epochkghandler/sendkeyshare.go ConstructDecryptionKeyShares    *)
(*       !dkgResultDB.Success -> ErrEonDKGFailed, nothing stored or sent   *)
(*   keyper/epochkghandler/keyshare.go, key.go ValidateMessage             *)
(*       GetDKGResultForKeyperConfigIndex (newest eon of the keyper set),  *)
(*       !Success -> ValidationReject; checkKeyShares verifies the share   *)
(*       against the RECEIVER's PublicKeyShares[sender], checkKeysErrors   *)
(*       the key against the RECEIVER's eon public key                     *)
(* Only the honest keypers run a node in phase 2 (a Byzantine keyper stays *)
(* silent there: malformed gossip input is C04/C05/C06, invalid shares C01)*)
(***************************************************************************)
EXTENDS DKGProps

CONSTANT Rounds         \* sequence of identity lists: one decryption trigger (round) per list; the
                        \* lists may overlap ({A} then {A,B}); a single round is <<ids>>

G == INSTANCE Gossip WITH N <- N, T <- T, Rounds <- Rounds, Flavour <- "core"

ASSUME PhaseLen >= 2 /\ Cardinality(Byz) <= 1

----------------------------------------------------------------------------
(* Phase 1: strategies *)

Only(S, v) == [i \in K |-> IF i \in S THEN v ELSE Blank]

(* blocks: the first block of a phase in which a message queued at the phase change can be
   included, and the first block after the phase *)
DealIn == 1            DealLate == PhaseLen
AccIn  == PhaseLen + 1 AccLate  == 2 * PhaseLen
ApolIn == 2 * PhaseLen + 1

At(h, o) == [h |-> h, op |-> o]

MinOf(S) == CHOOSE x \in S : \A y \in S : x <= y

(* the Byzantine keyper, its victim (lowest honest keyper) and the other honest keypers *)
B == CHOOSE b \in Byz : TRUE
V == MinOf(Honest)
Others == Honest \ {V}

Strat(name, script, held) == [name |-> name, script |-> script, held |-> held]

CommitGood == Op("bcommit", B, Only({B}, "good"))
EvalAllOk  == Op("beval", B, Only(Honest, "ok"))
EvalBadToV == Op("beval", B, [i \in K |-> IF i = V THEN "bad" ELSE IF i \in Honest THEN "ok" ELSE Blank])

(* script: Byzantine ops in the order they are sent (by block, inside a block by Rank);
   held: <<keyper, kind>> pairs of honest messages that go into the first block AFTER their phase *)
ByzStrategies ==
    << Strat("silent",          <<>>, {}),
       Strat("asHonest",        <<At(DealIn, CommitGood), At(DealIn, EvalAllOk)>>, {}),
       Strat("badDegree",       <<At(DealIn, Op("bcommit", B, Only({B}, "baddeg"))), At(DealIn, EvalAllOk)>>, {}),
       Strat("evalBadNoApol",   <<At(DealIn, CommitGood), At(DealIn, EvalBadToV)>>, {}),
       Strat("evalBadApolOk",   <<At(DealIn, CommitGood), At(DealIn, EvalBadToV),
                                  At(ApolIn, Op("bapol", B, Only({V}, "ok")))>>, {}),
       Strat("evalBadApolBad",  <<At(DealIn, CommitGood), At(DealIn, EvalBadToV),
                                  At(ApolIn, Op("bapol", B, Only({V}, "bad")))>>, {}),
       Strat("falseAccusation", <<At(DealIn, CommitGood), At(DealIn, EvalAllOk),
                                  At(AccIn, Op("bacc", B, Only({V}, "x")))>>, {}),
       Strat("lateCommitment",  <<At(DealIn, EvalAllOk), At(DealLate, CommitGood)>>, {}),
       (* the victim's accusation reaches the chain after the accusing phase: nobody registers it,
          the dealer stays qualified, the victim's key generation FAILS, the others succeed *)
       Strat("evalBadAccLate",  <<At(DealIn, CommitGood), At(DealIn, EvalBadToV)>>, {<<V, "acc">>}) >>

HonestStrategies ==
    << Strat("allHonest",        <<>>, {}),
       (* keyper 1's evaluations are late: accused by all, apologises, everybody succeeds *)
       Strat("evalLate",         <<>>, {<<1, "eval">>}),
       (* ... and its apology is late too: disqualified by everybody (itself included), all succeed *)
       Strat("evalLateApolLate", <<>>, {<<1, "eval">>, <<1, "apol">>}),
       (* ... keyper 2's accusation is late instead: keyper 2's key generation FAILS, 1 and 3 succeed *)
       Strat("evalLateAccLate",  <<>>, {<<1, "eval">>, <<2, "acc">>}),
       (* keyper 1's commitment (and the evaluations queued behind it) late: disqualified, all succeed *)
       Strat("commitLate",       <<>>, {<<1, "commit">>}) >>

Strategies == IF Byz = {} THEN HonestStrategies ELSE ByzStrategies

StrategyNamed(n) == LET i == CHOOSE k \in DOMAIN Strategies : Strategies[k].name = n IN Strategies[i]
StrategyNames == {Strategies[k].name : k \in DOMAIN Strategies}

(* honest keyper j has a message it sends NOW under the strategy: the head of its outbox, whose
   window has started and which is not held back (a held message waits for the late block) *)
Postable(sg, s, j) ==
    /\ j \in Honest /\ Len(s.kp[j].outbox) > 0
    /\ LET k == Head(s.kp[j].outbox).k IN
       /\ s.h >= WindowStart(k)
       /\ (<<j, k>> \in sg.held) => s.h >= WindowEnd(k)

ScriptPending(sg, pc, s) == pc <= Len(sg.script) /\ sg.script[pc].h = s.h

(* the op the strategy takes next in state s (pc = next script entry); phase 1 is deterministic:
   scripted Byzantine ops first, then the honest keypers in index order send everything they may,
   then the block is closed.  Enabledness in the DKG module itself is checked separately. *)
P1Allows(sg, pc, s, o) ==
    IF ScriptPending(sg, pc, s) THEN o = sg.script[pc].op
    ELSE IF \E j \in Honest : Postable(sg, s, j)
         THEN o = Op("post", MinOf({j \in Honest : Postable(sg, s, j)}), BlankVals)
         ELSE o = Op("end", 0, BlankVals)

P1Enabled(sg, pc, s, o) == P1Allows(sg, pc, s, o) /\ OpEnabled(s, o, 0, TRUE, 0)
P1NextPc(sg, pc, s, o) == IF ScriptPending(sg, pc, s) /\ o = sg.script[pc].op THEN pc + 1 ELSE pc

(* the op alphabet of phase 1 *)
P1Ops == {Op("post", k, BlankVals) : k \in Honest} \cup {Op("end", 0, BlankVals)} \cup
         UNION {{Strategies[n].script[q].op : q \in DOMAIN Strategies[n].script} : n \in DOMAIN Strategies}

----------------------------------------------------------------------------
(* Handover: what phase 2 inherits from the final DKG state *)

NoMat == <<>>
Part == {i - 1 : i \in Honest}                       \* gossip nodes that exist in phase 2
SuccKeypers(s) == {i \in Honest : s.kp[i].done /\ s.kp[i].ok}

HandoverOf(s) ==
    [succ |-> {i - 1 : i \in SuccKeypers(s)},
     mat  |-> [j \in G!Nodes |-> IF (j + 1) \in SuccKeypers(s) THEN s.kp[j + 1].qual ELSE NoMat]]

----------------------------------------------------------------------------
(* Phase 2: the gossip operators behind the node's dkg_result row *)

(* the combined topic validator of node j: ValidateMessage of the core handlers.  A node without a
   successful dkg_result for the NEWEST eon of the keyper set rejects shares and keys; a share / key
   made from other key material than the receiver's does not verify. *)
E2EValidate(hv, nd, j, m) ==
    IF j \notin hv.succ THEN "reject"
    ELSE IF hv.mat[m.from] # hv.mat[j] THEN "reject"
    ELSE G!Validate(nd, m)

(* KeyShareHandler.handleEvent -> ConstructDecryptionKeyShares for the trigger of round r *)
E2ETrigger(hv, nd, i, r) ==
    IF i \notin hv.succ THEN [nd |-> nd, out |-> <<>>, err |-> "dkgfailed"]
    ELSE LET tr == G!TriggerNode(nd, i, r) IN [nd |-> tr.nd, out |-> tr.out, err |-> ""]

(* one delivery: validator, on Accept the handlers *)
E2EDeliver(hv, nd, j, m) ==
    LET v == E2EValidate(hv, nd, j, m)
        h == IF v = "accept" THEN G!HandleAll(nd, j, m) ELSE [nd |-> nd, out |-> <<>>] IN
    [v |-> v, nd |-> h.nd, out |-> h.out]

(* publication: Gossip!Publish (own validators, one copy per other node); only honest keypers
   run a node *)
E2EPublish(nd, i, out) ==
    LET p == G!Publish(nd, i, out, 1) IN
    [pk |-> [q \in {x \in DOMAIN p.pk : x.d \in Part} |-> p.pk[q]], prod |-> p.prod]

(* losses of share messages: at most MaxLoss per receiver and round, and never more than leaves the
   receiver T shares (its own included) from the nodes triggered for the round that hold a share;
   wt[r] = the nodes that will be triggered for round r *)
DropBudget(hv, wt, r) == Cardinality(wt[r] \cap hv.succ) - T

=============================================================================
