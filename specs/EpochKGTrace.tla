----------------------------- MODULE EpochKGTrace -----------------------------
(* trie walk as in ShuttermintTrace: op lines push (observed state, ghost), "pop" returns *)
EXTENDS EpochKG, Json
CONSTANT TraceFile
Trace == ndJsonDeserialize(TraceFile)
VARIABLES l, stack, viol, drift
tvars == <<l, stack, viol, drift>>

TInit == l = 1 /\ stack = <<>> /\ viol = {} /\ drift = {}
TNext ==
    /\ l <= Len(Trace) /\ l' = l + 1
    /\ LET line == Trace[l] IN
       CASE line.k = "new" ->
              /\ stack' = <<[kg |-> line.st, gh |-> {}]>>
              /\ drift' = drift \cup (IF line.st = KGInit THEN {} ELSE {l})
              /\ UNCHANGED viol
         [] line.k = "pop" ->
              /\ stack' = SubSeq(stack, 1, line.d + 1) /\ UNCHANGED <<viol, drift>>
         [] OTHER ->
              LET top == stack[Len(stack)] r == Handle(top.kg, line.tok) IN
              /\ viol' = viol \cup {<<l, m>> : m \in
                           (IF line.panic # "" THEN {"C01_NoPanic"} ELSE Failed(top.gh, top.kg, line.tok, line.st))}
              /\ drift' = drift \cup (IF r.kg = line.st /\ r.err = line.err THEN {} ELSE {l})
              /\ stack' = Append(stack, [kg |-> line.st, gh |-> GhostNext(top.gh, line.tok)])
TSpec == TInit /\ [][TNext]_tvars
Done == l <= Len(Trace) \/
        PrintT(<<"RESULT", ToJson([lines |-> Len(Trace), viol |-> SetToSeq(viol), drift |-> SetToSeq(drift)])>>)
===============================================================================
