#!/bin/bash
# crossmut.sh <check-prop> <seeded-name> : runs ./check <check-prop> against an already stored seeded
# mutant (isolated, like evalmut.sh) and records the outcome in its meta.json under "cross".
P=$1; NAME=$2; D=/verif/seeded/$NAME
TMPN=cross-$NAME-$P
cp -r $D /tmp/$TMPN-src
/verif/evalmut.sh $P /tmp/$TMPN-src $TMPN > /tmp/$TMPN.out 2>&1
code=$(grep -E "^check exit=" /tmp/$TMPN.out | sed 's/check exit=//')
what=$(grep -E "^VIOLATION" -A1 /tmp/evalmut-$TMPN.log | sed -n 2p | cut -c1-200 | tr '"' "'" | tr -d '\\')
rm -rf /verif/seeded/$TMPN /tmp/$TMPN-src
python3 - <<PY
import json
m=json.load(open('$D/meta.json'))
m.setdefault('cross',{})['$P']={'exit':int('${code:-2}'),'detected':'${code:-2}'=='1','caught_by':"""$what""".strip()}
json.dump(m,open('$D/meta.json','w'),indent=1)
print('$NAME via $P:', m['cross']['$P']['detected'])
PY
